"""C04 - file serving is confined to the configured root directory / file."""
import errno
import itertools
import json
import os
import shutil
import sys

import common
from common import Check, sx, unsx, names, run_model
import fileh
from fileh import RecordingSource, deep_sxstr, sxstr

# ----------------------------------------------------------------------------- every open() during handling
_REC = {"on": False, "paths": []}
_PY_DIRS = tuple(sorted({os.path.realpath(p) for p in (sys.prefix, sys.base_prefix, sys.exec_prefix)}))


def _hook(event, args):
    if event == "open" and _REC["on"]:
        p = args[0]
        if isinstance(p, bytes):
            p = os.fsdecode(p)
        if isinstance(p, str):
            _REC["paths"].append(p)


sys.addaudithook(_hook)

# ----------------------------------------------------------------------------- fault injection on open()
# The name `open` of the two modules that open served files is replaced (in this process only) by a wrapper that
# can make ONE open of ONE path fail with a given errno, or change the file system at that very moment (the target
# becomes a directory / its parent becomes a regular file between whatever the code checked before and the open).
import vinegar.request_handler.file as _F_MOD      # noqa: E402
import vinegar.template.jinja as _J_MOD            # noqa: E402

_FAULT = {"armed": None, "fired": False}
ERRNO_FAULTS = {"EACCES": errno.EACCES, "EIO": errno.EIO, "ELOOP": errno.ELOOP}
_builtin_open = open


def _swap(path, kind):
    if kind == "swapdir":                        # the file is replaced by a directory
        if os.path.isdir(path):
            return
        if os.path.lexists(path):
            os.remove(path)
        os.makedirs(path)
    else:                                        # swapparent: the parent directory is replaced by a regular file
        parent = os.path.dirname(path)
        if os.path.isdir(parent):
            shutil.rmtree(parent)
        elif os.path.lexists(parent):
            return
        with _builtin_open(parent, "wb") as f:
            f.write(b"now a regular file\n")


def _race(path, kind):
    if kind == "race_rm":                        # unlinked while open: this request still reads the old content
        os.remove(path)
    elif kind == "race_dir":
        os.remove(path)
        os.makedirs(path)
    else:                                        # race_rw: a new file is renamed into place
        tmp = path + ".new"
        with _builtin_open(tmp, "wb") as f:
            f.write(HIST_CONTENT["W2"].encode())
        os.replace(tmp, path)


def _faulty_open(file, *args, **kwargs):
    f = _FAULT["armed"]
    if f is not None and isinstance(file, (str, bytes)) and os.path.abspath(os.fsdecode(file)) == f["path"]:
        _FAULT["armed"] = None
        _FAULT["fired"] = True
        if f["kind"] in ERRNO_FAULTS:
            if _REC["on"]:
                _REC["paths"].append(os.fsdecode(file))       # the attempt counts as an access
            e = ERRNO_FAULTS[f["kind"]]
            raise OSError(e, os.strerror(e), os.fsdecode(file))
        was_on, _REC["on"] = _REC["on"], False      # the harness's own file operations are not the handler's
        try:
            if f["kind"].startswith("race_"):
                # the change happens right AFTER this open() succeeded, i.e. between two OS calls of one request
                _REC["on"] = was_on
                fobj = _builtin_open(file, *args, **kwargs)
                _REC["on"] = False
                _race(f["path"], f["kind"])
                return fobj
            _swap(f["path"], f["kind"])
        finally:
            _REC["on"] = was_on
    return _builtin_open(file, *args, **kwargs)


_F_MOD.open = _faulty_open
_J_MOD.open = _faulty_open

ALPHABET = ["/", ".", "..", "a", "f.txt", "%2e", "%2f", "%2F", "%5c", "\\", "%00", "\0", "%c0%af", "%ff", "?x", "//",
            "%25", "secret.txt", "root-evil", "%41", "sub", "%3f", "%3F", "%ef%bc%8f"]

TREE = {
    "secret.txt": "TOP SECRET above the root\n",
    "f.txt": "decoy f.txt above the root\n",
    "root-evil/f.txt": "decoy in a sibling directory whose name starts with the root's name\n",
    "root-evil/secret.txt": "another decoy\n",
    "rootfile.txt": "the single file of the file-mode handler\n",
    "root/f.txt": "root/f.txt\n",
    "root/f.txt.j2": "root/f.txt.j2\n",
    "root/a/f.txt": "root/a/f.txt\n",
    "root/a/f.txt.j2": "root/a/f.txt.j2\n",
    "root/a/a": "root/a/a\n",
    "root/sub/a/f.txt": "root/sub/a/f.txt\n",
    "root/A": "root/A (what a twice-decoded %2541 would name)\n",
    "root/%41": "root/%41 (what %2541 names)\n",
    "root/secret.txt": "root/secret.txt - inside the root, may be served\n",
    "root/..a": "root/..a\n",
    "root/\\": "root/backslash\n",
    "root/a\\f.txt": "root/a-backslash-f.txt\n",
    "root/%2e%2e": "root/%2e%2e literal\n",
    "root/f.txt?x": "root/f.txt?x (named by f.txt%3fx)\n",
    "root/a?": "root/a? (named by a%3f)\n",
    "root/a%20b": "root/a%20b (named by a%2520b; a%20b names 'a b')\n",
    # linkcur -> releases/v2/app: "linkcur/../data" denotes releases/v2/data; "data" is what lexical normalisation names
    "releases/v2/app/x": "app\n",
    "releases/v2/data/f.txt": "the real data/f.txt (releases/v2/data)\n",
    "releases/v2/data/f.txt.j2": "the real data/f.txt.j2\n",
    "releases/v2/data/a/f.txt": "the real data/a/f.txt\n",
    "data/f.txt": "DECOY at the lexically normalised location\n",
    "data/f.txt.j2": "DECOY .j2\n",
    "data/nothere.txt": "DECOY for a file that does not exist where root_dir points\n",
    "data/a/f.txt": "DECOY a/f.txt\n",
    # falsy-but-valid / sentinel-like / non-ASCII names and contents
    "root/empty": "",
    "root/empty.j2": "",
    "root/0": "root/0\n",
    "root/None": "root/None\n",
    "root/\xe9": "root/e-acute (named by %c3%a9 and by the raw character)\n",
    "root/\xe9.j2": "root/e-acute.j2\n",
    # names with characters a too-strict filter or a not-quite-equivalent rewrite could trip over
    "root/[x": "root/[x\n",
    "root/x]/f.txt": "root/x]/f.txt\n",
    "root/[::1/f.txt": "root/[::1/f.txt\n",
    "root/a b": "root/a b\n",
    "root/x\ny": "root/x<LF>y\n",
    "root/f.txt\n": "root/f.txt<LF>\n",
    "root/ ": "root/<space>\n",
    "root/~#&=+;,$!*'()": "root/punctuation\n",
    # legal names at and beyond natural limits
    "root/" + "n" * 100: "root/n*100\n",
    "root/" + "m" * 255: "root/m*255 (exactly NAME_MAX)\n",
    "root/" + "/".join(["d%02d" % i + "x" * 46 for i in range(6)]) + "/f.txt": "root/<six 50-character directories>/f.txt\n",
}
for _depth in (16, 17, 64, 65):
    TREE["root/" + "e/" * _depth + "f"] = "root/<%d nested directories>/f\n" % _depth

HIST_OPS = ["R", "G", "A", "D", "W1", "W2"]
HIST_CONTENT = {"W0": "zero\n", "W1": "one one\n", "W2": "two two two\n"}


class HistObs(list):
    """observations of the request steps of one history"""


KIND = {"file": 0, "ENOENT": 1, "EISDIR": 2, "ENOTDIR": 3, "ENAMETOOLONG": 4, "EACCES": 5, "OTHER": 6, "EACCES_DIR": 7}


def probe(path):
    """the file-system oracle, asked directly (not through vinegar): what does open(path) do?"""
    try:
        with open(path, "rb") as f:
            return [KIND["file"], f.read()]
    except FileNotFoundError:
        return [KIND["ENOENT"], b""]
    except IsADirectoryError:
        return [KIND["EISDIR"], b""]
    except NotADirectoryError:
        return [KIND["ENOTDIR"], b""]
    except PermissionError:
        return [KIND["EACCES"], b""]
    except OSError as e:
        return [KIND["ENAMETOOLONG"] if e.errno == errno.ENAMETOOLONG else KIND["OTHER"], b""]
    except ValueError:
        return [KIND["OTHER"], b""]


def mkcfg(rpath, filemode, template, suffix="", key="", ph=None, target_raw=None, literal=False):
    cfg = {"rpath": rpath, "filemode": filemode, "target": "rootfile.txt" if filemode else "root", "suffix": suffix,
           "key": key, "ph": ph, "cont": True, "ign": 0, "template": template, "tpre": "", "tsuf": ""}
    if target_raw is not None:
        cfg["target_raw"] = target_raw
    if literal:
        cfg["target_literal"] = True
    return cfg


# root_dir / file configured relative to the working directory, with a trailing slash, or (file) non-normalised,
# missing, a directory, below a regular file.  The handler gets the string verbatim; the model gets its abspath.
RAW_ROOTS = ["root", "root/", "$BASE/root/", "$BASE/rootlink", "linkdir/root"]     # the last two: symbolic links
RAW_FILES = ["rootfile.txt", "./rootfile.txt", "$BASE/root/../rootfile.txt", "nothere.txt", "$BASE/root/../nothere.txt",
             "$BASE/rootfile.txt/below", "root", "root/a/../f.txt"]
# root_dir spellings for which the unchanged code serves nothing at all (see docs/C04.md, "Found about the real
# code"); only generated when C04_NONNORMAL_ROOT=1
RAW_ROOTS_NONNORMAL = ["./root", "$BASE/sub/../root", "$BASE//root", "root/.",
                       # a symbolic link followed by "..": lexical normalisation names another directory (a decoy is there)
                       "linkcur/../data", "$BASE/linkcur/../data", "$BASE/rootlink/../root"]
RAW_FILES_NONNORMAL = ["linkcur/../data/f.txt", "$BASE/linkcur/../data/nothere.txt", "./rootlink/../rootfile.txt"]


def all_configs():
    out = []
    for template in (False, True):
        for suffix in ("", ".j2"):
            out.append(mkcfg("/", False, template, suffix))
        out.append(mkcfg("/p", False, template, ""))
        out.append(mkcfg("/p/...", False, template, ".j2", key=":system_id:"))
        out.append(mkcfg("/x-...-y/q", False, template, "", key=":system_id:"))
        out.append(mkcfg("/p", True, template))
        out.append(mkcfg("/p/...", True, template, key=":system_id:"))
        out.append(mkcfg("/", True, template))
    # a suffix that is not a plain extension: it is appended after normpath, verbatim (TFTP only, no template:
    # Jinja's loader would normalise the name once more)
    out.append(mkcfg("/", False, False, "/../f.txt"))
    for template in (True, False):
        for raw in RAW_ROOTS:
            out.append(mkcfg("/", False, template, "", target_raw=raw))
        # not lexically normalised: by default the model gets the configured text (the property by its letter:
        # not-found or exactly the file the OS means); C04_NONNORMAL_ROOT=1 hands the model the normalised path instead
        # and so demands that existing files are served (shows the observation of docs/C04.md)
        for raw in RAW_ROOTS_NONNORMAL:
            out.append(mkcfg("/", False, template, "", target_raw=raw, literal=not os.environ.get("C04_NONNORMAL_ROOT")))
        out.append(mkcfg("/p", False, template, ".j2", target_raw="linkcur/../data", literal=True))
        for raw in RAW_FILES_NONNORMAL:
            # with a template engine the unchanged code opens os.path.abspath(file) (lexical), i.e. another file when a
            # symbolic link is followed by "..": known finding D27; those few cases are generated at the very end of the
            # run (d27_cases) so that they cannot use up the slots for failing cases
            if template:
                continue
            out.append(mkcfg("/p", True, template, target_raw=raw, literal=True))
        out.append(mkcfg("/p", False, template, ".j2", target_raw="root"))
        for raw in RAW_FILES:
            out.append(mkcfg("/p", True, template, target_raw=raw))
    return out


def prefixes(cfg):
    rp = cfg["rpath"]
    if cfg["key"]:
        return [rp.replace("...", "v"), rp.replace("...", "%2e%2e")]
    return ["" if rp == "/" else rp]


def link_then_dotdot(path):
    """does the configured path have a component that is a symbolic link, followed (later) by a ".." component?"""
    parts = path.split("/")
    for i in range(1, len(parts)):
        prefix = "/".join(parts[:i]) or "/"
        if ".." in parts[i:] and os.path.islink(os.path.join(fileh.base_dir(), prefix)):
            return True
    return False


def d27_cases():
    """known finding D27: file mode + template + configured `file` with a symbolic link followed by '..'"""
    for raw in RAW_FILES_NONNORMAL:
        cfg = mkcfg("/p", True, True, target_raw=raw, literal=True)
        for tftp, uri in ((False, "/p"), (True, "/p"), (True, "p"), (False, "/p?x"), (False, "/p/")):
            yield {"tftp": tftp, "cfg": cfg, "uri": uri}


D27_CLAUSES = {"confined", "file_mode_single_file", "serves_the_named_file", "not_regular_is_not_found"}


class C04(Check):
    ident = "C04"
    technique = ("Coq proof (translate_path = root + named segments + suffix, normpath is the identity on it; open errors "
                 "-> not found) + differential correspondence with audit-hook observation of every open()")
    rule = ("case = (protocol, configuration, request string); observation = (handled?, every path opened during "
            "handle(), result class, body); request strings exhaustive over the adversarial token alphabet up to a "
            "length behind each configured prefix, random longer ones, over-long segments; non-trivial = request handled "
            "by a directory-mode handler and naming something other than a plain existing file, or containing an escape, "
            "dot segment, backslash or NUL; distinct by (configuration, protocol, request)")
    assumptions = [
        "root_dir is absolute, normalised (normpath root = root) and has no trailing slash",
        "file system answers are an oracle (open(path) asked directly for exactly the path the model names)",
        "templates are plain UTF-8 text (rendering = identity); template cache disabled so that every request opens its file",
        "no symlinks / special files inside the tree; POSIX path separator; EACCES not exercised (checks run as root)",
    ]

    def __init__(self):
        self._handlers = {}
        self._tree = False

    def tree(self):
        if self._tree:
            return
        self._tree = True
        for rel, content in TREE.items():
            fileh.write_file(rel, content)
        os.chdir(fileh.base_dir())       # relative root_dir / file options are relative to this directory
        for link, target in (("rootlink", "root"), ("linkdir", "."), ("linkcur", "releases/v2/app")):
            if not os.path.lexists(link):
                os.symlink(target, link)
        # warm up lazily imported modules so that their files are not counted as opened by a request
        for cfg in (mkcfg("/", False, True), mkcfg("/", False, False)):
            for tftp in (False, True):
                h = self.handler(cfg, tftp)
                ctx = h.prepare_context("/f.txt")
                fileh.run_handle(h, tftp, "/f.txt", ctx)
                ctx = h.prepare_context("/nope")
                fileh.run_handle(h, tftp, "/nope", ctx)

    def handler(self, cfg, tftp):
        key = (json.dumps(cfg, sort_keys=True), tftp)
        if key not in self._handlers:
            self.tree()
            h = fileh.build(cfg, tftp, template_cache=False)
            if h is not None:
                h.set_data_source(RecordingSource({}, []))
            self._handlers[key] = h
        return self._handlers[key]

    # ---- generators
    def gen(self, tier, rng):
        self.tree()
        cfgs = all_configs()
        if os.environ.get("C04_LIMIT_CFGS"):
            cfgs = cfgs[::int(os.environ["C04_LIMIT_CFGS"])]
        n_all = 3 if tier == "quick" else 4
        if os.environ.get("C04_N"):
            n_all = int(os.environ["C04_N"])
        # histories: one long-lived handler, template cache enabled, requests interleaved with removal / replacement
        # by a directory / rewriting of the served file
        hl = 4 if tier == "quick" else 5
        k = 0
        for n in range(1, hl + 1):
            for ops in itertools.product(HIST_OPS if n < hl else [o for o in HIST_OPS if o != "G"], repeat=n):
                if "R" not in ops:
                    continue
                k += 1
                hcfg = mkcfg("/", False, True, "")
                hcfg["target"] = "hroot"
                yield {"tftp": bool(k % 2), "cfg": hcfg, "uri": "/f.txt", "hist": list(ops)}
        for _ in range(100 if tier == "quick" else 300):
            ops = ["R"] + [rng.choice(HIST_OPS) for _ in range(rng.randrange(4, 10))]
            yield {"tftp": bool(rng.randrange(2)), "cfg": mkcfg("/", False, True, "") | {"target": "hroot"}, "uri": "/f.txt",
                   "hist": ops}
        # (A)+(B): faults injected into open() and external changes, on handlers that open their file on every request
        # (no template engine; template engine with the cache disabled), three ways of naming the file
        variants = [
            (mkcfg("/", False, False, ""), "d/f.txt", "/d/f.txt"),
            (mkcfg("/", False, True, ""), "d/f.txt", "/d/f.txt"),
            (mkcfg("/p", False, False, ".j2"), "d/f.txt.j2", "/p/d/f.txt"),
            (mkcfg("/p", True, False), "d/f.txt", "/p"),
            (mkcfg("/p", True, True), "d/f.txt", "/p"),
        ]
        faults = ["EACCES", "EIO", "ELOOP", "swapdir", "swapparent"]
        toks = [["R"], ["A"], ["D"], ["W1"]] + [["X:" + f, "R"] for f in faults]
        for vi, (vcfg, hfile, ruri) in enumerate(variants):
            vcfg = dict(vcfg, target="hroot/" + hfile if vcfg["filemode"] else "hroot")
            depth = (3 if vi == 0 else 2) if tier == "quick" else 3
            k = 0
            for n in range(1, depth + 1):
                for seq in itertools.product(toks, repeat=n):
                    ops = [o for t in seq for o in t]
                    if "R" not in ops or not any(o.startswith("X:") or o in "AD" for o in ops):
                        continue
                    k += 1
                    yield {"tftp": bool(k % 2), "cfg": vcfg, "uri": ruri, "hist": ops + ["R"], "hfile": hfile,
                           "cache": False}
            for _ in range(40 if tier == "quick" else 400):
                seq = [rng.choice(toks) for _ in range(rng.randrange(3, 7))]
                yield {"tftp": bool(rng.randrange(2)), "cfg": vcfg, "uri": ruri, "hist": [o for t in seq for o in t] + ["R"],
                       "hfile": hfile, "cache": False}
        # a change between two OS calls of ONE request (right after its open() succeeded), template cache enabled:
        # this request may still answer with the old file; every later one must see the file system as it is
        rtoks = [["R"], ["A"], ["W1"], ["X:race_rm", "R"], ["X:race_rw", "R"], ["X:race_dir", "R"]]
        k = 0
        for n in range(1, 4):
            for seq in itertools.product(rtoks, repeat=n):
                ops = [o for t in seq for o in t]
                if not any(o.startswith("X:") for o in ops):
                    continue
                k += 1
                for cache in ((True,) if (k % 3 or tier == "quick") else (True, False)):
                    hcfg = dict(mkcfg("/", False, True, ""), target="hroot")
                    yield {"tftp": bool(k % 2), "cfg": hcfg, "uri": "/f.txt", "hist": ops + ["R", "R"], "cache": cache}
        for k, seq in enumerate(itertools.product(rtoks[3:], repeat=1)):
            hcfg = dict(mkcfg("/", False, False, ""), target="hroot")
            yield {"tftp": bool(k % 2), "cfg": hcfg, "uri": "/f.txt", "hist": list(seq[0]) + ["R"], "cache": False}
        # root_dir is a symbolic link that is re-pointed (op L) while the handler lives
        ltoks = [["R"], ["G"], ["L"], ["W1"], ["A"]]
        k = 0
        for template, cache in ((False, False), (True, True), (True, False)):
            for n in range(1, 4):
                for seq in itertools.product(ltoks, repeat=n):
                    ops = [o for t in seq for o in t]
                    if "L" not in ops:
                        continue
                    k += 1
                    lcfg = dict(mkcfg("/", False, template, ""), target="hlink", target_raw="$BASE/hlink")
                    yield {"tftp": bool(k % 2), "cfg": lcfg, "uri": "/f.txt", "hist": ops + ["R", "G"], "cache": cache,
                           "link": True}
        # a sample of requests through the real HttpServer / TftpServer in front of the handler
        wit = ["/f.txt", "/nope", "/a", "/a/f.txt", "/a/../f.txt", "/%2541", "/%41", "/a%2520b", "/a%20b", "/f.txt%3fx",
               "/f.txt%3Fx?y", "/f.txt?x", "/%2e%2e/secret.txt", "/..%2fsecret.txt", "/%252e%252e/secret.txt", "/f.txt/a",
               "//f.txt", "/a//f.txt", "/%c3%a9", "/\xe9", "/f.txt%00", "/f.txt%2500", "/[x", "//[x", "/x%0Ay", "/empty",
               "/" + "n" * 100, "/f.txt?" + "q" * 300, "/%66%2e%74%78%74", "/a%5cf.txt", "/a\\f.txt", "/%25", "/%", "/%2"]
        scfgs = [mkcfg("/", False, False, ""), mkcfg("/", False, True, ""), mkcfg("/p", False, False, ".j2"),
                 mkcfg("/p", True, True), mkcfg("/p/...", False, True, ".j2", key=":system_id:")]
        two = list(fileh.tokens_upto(ALPHABET, 2))
        for si, cfg in enumerate(scfgs):
            for tftp in (False, True):
                seen = set()
                for pre in prefixes(cfg):
                    for u in [pre + w for w in wit] + ([pre + t for t in two] if si < 2 else []) + ["/", pre, "/x"]:
                        for w in ((u,) if not tftp else (u, u[1:])):
                            if w and w not in seen and fileh.servable(tftp, w):
                                seen.add(w)
                                yield {"tftp": tftp, "cfg": cfg, "uri": fileh.wire_to_handler(tftp, w), "wire": w, "via_server": True}
        # every character in every position, and legal requests at and beyond every natural limit
        for cfg in (mkcfg("/", False, False, ""), mkcfg("/", False, True, ""), mkcfg("/p", False, False, ".j2"),
                    mkcfg("/p", True, True)):
            pre = "" if cfg["rpath"] == "/" else cfg["rpath"]
            for tftp in (False, True):
                seen = set()
                pats = ["/f.txt%s", "/%sf.txt", "/a/%s", "//%sx/f.txt", "//x%s/f.txt", "/a%s/f.txt", "%s"]
                if tftp:
                    pats = pats[0::3]
                if cfg["filemode"]:
                    pats = ["%s", "/%s"]
                for x in fileh.char_sweep():
                    for pat in pats:
                        u = pre + pat.replace("%s", x)
                        if u not in seen:
                            seen.add(u)
                            yield {"tftp": tftp, "cfg": cfg, "uri": u}
                names = ["/f.txt", "/" + "n" * 100, "/" + "m" * 255, "/" + "m" * 256, "/a/f.txt",
                         "/" + "/".join(["d%02d" % i + "x" * 46 for i in range(6)]) + "/f.txt",
                         "/[x", "//[x", "//x]/f.txt", "//[::1/f.txt?a=b", "/a b", "/a%20b", "/x%0Ay", "/f.txt%0a", "/%20",
                         "/~#&=+;,$!*'()".replace("#", "%23")] + ["/" + "e/" * d + "f" for d in (16, 17, 64, 65)]
                if cfg["filemode"]:
                    names = [""]
                longs = []
                for nm in names:
                    base = pre + nm
                    longs.append(base)
                    longs.append(pre + "/".join(fileh.pct_all(seg) for seg in nm.split("/")))
                    longs.extend(fileh.long_requests(base, (255, 256, 257, 300, 1000) if (nm != "/f.txt" or cfg["template"] or cfg["suffix"]) else
                                                     (255, 256, 257, 300, 1000, 4096, 4097)))
                    for k in (254, 255, 256, 300):
                        if nm and not cfg["filemode"]:
                            longs.append(pre + "/" * k + nm.lstrip("/"))
                for u in longs:
                    if u not in seen:
                        seen.add(u)
                        yield {"tftp": tftp, "cfg": cfg, "uri": u}
        for ci, cfg in enumerate(cfgs):
            main = (cfg["rpath"] == "/" and not cfg["filemode"] and cfg.get("target_raw") is None)
            n = n_all if (main and not cfg["suffix"] and (tier == "quick" or not cfg["template"])) else n_all - 1
            if cfg.get("target_raw") not in (None, "root") and tier != "quick":
                n = n_all - 2
            if cfg.get("target_raw") not in (None, "root", "$BASE/rootlink") and tier == "quick":
                n = 1             # witnesses, one-token requests, random ones
            if tier != "quick" and not main and cfg["template"] and cfg["rpath"] != "/" and cfg.get("target_raw") is None:
                n = n_all - 2     # the non-template twin of this configuration keeps the larger scope
            strings_all = list(fileh.tokens_upto(ALPHABET, n))
            strings_tftp = strings_all if (tier == "quick" or n < 4) else list(fileh.tokens_upto(ALPHABET, n - 1))
            for tftp in (False, True):
                strings = strings_tftp if tftp else strings_all
                if tier == "quick" and tftp and main and cfg["template"] and n == n_all:
                    strings = list(fileh.tokens_upto(ALPHABET, n - 1))   # the HTTP twin keeps the larger scope
                if "/" in cfg["suffix"] and not tftp:
                    continue      # the HTTP class derives the content type from basename minus suffix (asserts)
                seen = set()
                # witnesses of the known failure modes first (ENOTDIR, EISDIR, ENAMETOOLONG, traversal)
                for pre in prefixes(cfg):
                    for u in (pre + "/empty", pre + "/0", pre + "/None", pre + "/False", pre + "/%c3%a9", pre + "/\xe9",
                              pre + "/%e9", pre + "/%C3%A9?x", pre + "/a/%c3%a9",
                              # requests that do not match: shorter than the prefix, other segment, empty value ...
                              "", "x", "/", pre[:-1], pre + "x", pre.rsplit("/", 1)[0], pre.rsplit("/", 1)[0] + "/",
                              cfg["rpath"].replace("...", ""), cfg["rpath"].replace("...", "") + "/f.txt",
                              cfg["rpath"].replace("...", "v").replace("x-", "y-") + "/f.txt",
                              cfg["rpath"].replace("...", "v").replace("/q", "") + "/f.txt",
                              cfg["rpath"].replace("...", "v").replace("/q", "/z") + "/f.txt",
                              pre, pre + "/f.txt", pre + "/nope", pre + "/sub/nope", pre + "/sub", pre + "/a/f.txt/a/a",
                              pre + "/f.txt/a", pre + "/a/f.txt/..", pre + "/a", pre + "/a/", pre + "/../secret.txt",
                              pre + "/%2e%2e/secret.txt", pre + "/..%2fsecret.txt", pre + "/../root-evil/f.txt",
                              pre + "/a/../f.txt", pre + "/%2541", pre + "/f.txt%00", pre + "/a\\f.txt", pre + "/..a",
                              pre + "//f.txt", pre + "/a//f.txt", pre + "/./f.txt", pre + "/f.txt/", pre + "/f.txt/.",
                              pre + "/..%ef%bc%8froot-evil%ef%bc%8ff.txt", pre + "/%ef%bc%8e%ef%bc%8e/secret.txt",
                              pre + "/a%ef%bc%8ff.txt", pre + "/" + "%c3%a4" * 200, pre + "/" + "b" * 253 + ".j",
                              pre + "/a/" * 1 + "/".join(["b" * 200] * 25)):
                        if u not in seen:
                            seen.add(u)
                            yield {"tftp": tftp, "cfg": cfg, "uri": u}
                    for seg in ("b" * 255, "b" * 256, "b" * 300, "%c3%a9" * 128):
                        for u in (pre + "/" + seg, pre + "/a/" + seg + "/f.txt", pre + "/f.txt/" + seg):
                            if u not in seen:
                                seen.add(u)
                                yield {"tftp": tftp, "cfg": cfg, "uri": u}
                for pre in prefixes(cfg):
                    for s in strings:
                        for u in ((pre + s,) if not tftp else (pre + s, (pre + s)[1:])):
                            if u not in seen:
                                seen.add(u)
                                yield {"tftp": tftp, "cfg": cfg, "uri": u}
                    # random longer requests and over-long segments
                    for _ in range(150 if tier == "quick" else 300):
                        k = rng.randrange(n + 1, n + 6)
                        u = pre + "".join(rng.choice(ALPHABET) if rng.random() < 0.85 else
                                          rng.choice(["%%%02x" % rng.randrange(256), chr(rng.randrange(1, 256)),
                                                      "%e2%80%ae", "%c0%ae", "%e0%80%af", "%uff0e", "%zz", "%"])
                                          for _ in range(k))
                        if u not in seen:
                            seen.add(u)
                            yield {"tftp": tftp, "cfg": cfg, "uri": u}
                    u = pre + "/" + "a/" * 2100 + "f.txt"      # longer than PATH_MAX
                    if u not in seen and (tier != "quick" or main or ci % 5 == 0):
                        seen.add(u)
                        yield {"tftp": tftp, "cfg": cfg, "uri": u}

        for c in d27_cases():
            yield c

    # ---- implementation
    def impl(self, c):
        cfg, tftp, uri = c["cfg"], c["tftp"], c["uri"]
        h = self.handler(cfg, tftp)
        if h is None:
            return [False, False, [], 4, b""]
        return self.run_request(h, cfg, tftp, uri, via_server=bool(c.get("via_server")), wire=c.get("wire"))

    def run_request(self, h, cfg, tftp, uri, via_server=False, wire=None):
        fileh.set_log_level(cfg.get("loglevel", "DEBUG"))
        if via_server:
            # the request travels through the real HttpServer / TftpServer (raw request target on the wire)
            _REC["paths"] = []
            _REC["on"] = True
            try:
                _seen, _ctx, can, cls, body = fileh.via_server(h, tftp, wire if wire is not None else uri)
            finally:
                _REC["on"] = False
            if not can:
                opened = [p for p in _REC["paths"] if not p.startswith(_PY_DIRS)]
                return [True, False, opened, cls if cls != fileh.DECLINED else 4, b""]
        else:
            ctx = h.prepare_context(uri)
            can = bool(h.can_handle(uri, ctx))
            if not can:
                return [True, False, [], 4, b""]
            _REC["paths"] = []
            _REC["on"] = True
            try:
                cls, body = fileh.run_handle(h, tftp, uri, ctx)
            finally:
                _REC["on"] = False
        opened = [p for p in _REC["paths"] if not p.startswith(_PY_DIRS)]
        if cfg.get("target_literal"):
            opened = [p if p.startswith("/") else fileh.base_dir() + "/" + p for p in opened]     # absolute, not normalised
        elif cfg.get("target_raw") is not None:
            # configured relative / non-normalised: compare what the opened names denote
            opened = [os.path.abspath(os.path.join(fileh.base_dir(), p)) for p in opened]
        return [True, True, opened, cls, body if body is not None else b""]

    def cfgline(self, c):
        return [c["tftp"], bool(c.get("old232")), bool(c.get("cached")), fileh.cfg_sx(c["cfg"]), c["uri"]]

    def line(self, c, obs):
        raise NotImplementedError   # evaluate() builds the lines (two passes)

    def canon(self, obs):
        # The paths opened are JUDGED by the checker (confined / file_mode_single_file / serves_the_named_file see the
        # full list in the line sent to the driver) but not COMPARED between model and code: whether the code attempts
        # an open for something it then answers not-found for (a directory, a path below a file) or finds that out
        # before opening is a don't-care, and with a template cache it depends on the history.
        if isinstance(obs, HistObs):
            return [deep_sxstr([o[0], o[1], [], o[3], o[4]]) for o in obs]
        return deep_sxstr([obs[0], obs[1], [], obs[3], obs[4]])

    @staticmethod
    def blank_opened(mobs):
        if isinstance(mobs, list) and len(mobs) > 2:
            mobs[2] = []
        return mobs

    def evaluate(self, cases):
        self.tree()
        out = [None] * len(cases)
        plain = [(i, c) for i, c in enumerate(cases) if "hist" not in c]
        if plain:
            obs = [self.impl(c) for _, c in plain]
            q = run_model(self.ident, [sx([0] + self.cfgline(c)) for _, c in plain])
            wants = [self.paths_of(ans, c) for (_, c), ans in zip(plain, q)]
            for k, ((_, c), w) in enumerate(zip(plain, wants)):
                if c["cfg"].get("target_literal"):
                    # root_dir / file not lexically normalised: an opened path counts as the named file when it denotes
                    # the same file to the operating system (root/./x and root/x; never the lexical twin of link/../x)
                    obs[k] = obs[k][:2] + [self.same_file_as(obs[k][2], w)] + obs[k][3:]
            lines = [self.full_line(c, o, w, None) for (_, c), o, w in zip(plain, obs, wants)]
            outs = run_model(self.ident, lines)
            for (i, c), o, w, ln, res in zip(plain, obs, wants, lines, outs):
                r = self.parse_out(ln, res)
                if c["cfg"].get("target_literal") and isinstance(r[0], list) and len(r[0]) > 2:
                    mo = [x.decode("latin-1") if isinstance(x, bytes) else "".join(map(chr, x)) for x in r[0][2]]
                    r[0][2] = deep_sxstr(self.same_file_as(mo, w))
                out[i] = (c, o, self.blank_opened(r[0]), names(r[1]), names(r[2]), r[3:])
        hist = [(i, c) for i, c in enumerate(cases) if "hist" in c]
        if hist:
            for (i, _), r in zip(hist, self.eval_histories([c for _, c in hist])):
                out[i] = r
        return out

    @staticmethod
    def same_file_as(paths, wanted):
        res = []
        for p in paths:
            rp = os.path.realpath(p)
            res.append(next((w for w in reversed(wanted) if os.path.realpath(w) == rp), p))   # the named file is last
        return res

    def match_known(self, entry, case, failed):
        """D27 only: file mode, template engine, configured `file` with a symbolic link followed by "..", the clauses
        of that family - and the model of the current code (loader opens the lexically normalised name) must
        reproduce the observation exactly; anything else stays a violation"""
        if entry.get("id") != "D27" or "hist" in case or case.get("via_server"):
            return False
        cfg = case["cfg"]
        if not (cfg["filemode"] and cfg["template"] and cfg.get("target_literal") and cfg.get("target_raw")
                and link_then_dotdot(fileh.target_configured(cfg) if cfg["target_raw"].startswith("$BASE")
                                     else cfg["target_raw"])):
            return False
        if not failed or not set(failed) <= D27_CLAUSES:
            return False
        try:
            (c, o, m, fm, fi, rest), = self.evaluate([case])
        except Exception:                # noqa
            return False
        return bool(fi) and set(fi) <= D27_CLAUSES and self.canon(o) == m

    def model_should_hold(self, c):
        # cases outside the hypotheses of C04_holds (root not lexically normalised) are judged on the implementation only
        return not c["cfg"].get("target_literal")

    def paths_of(self, ans, c):
        if ans.startswith("#") or ans.startswith("!"):
            raise RuntimeError(f"C04: driver rejected query for {c['uri']!r}")
        return [w.decode("latin-1") if isinstance(w, bytes) else "".join(chr(x) for x in w) for w in unsx(ans)]

    def full_line(self, c, o, wanted, table):
        """table = None: ask the file system now"""
        if table is None:
            table = self.probe_table(wanted, o)
        return sx([1] + self.cfgline(c) + [table, deep_sxstr(list(o))])

    def probe_table(self, wanted, o, injected=None):
        """injected = (path, kind): open(path) was made to fail with that errno for this request"""
        paths = list(wanted)
        for p in o[2]:
            if p not in paths:
                paths.append(p)
        rows = []
        for p in paths:
            if injected is not None and os.path.abspath(p) == injected[0]:
                k = injected[1]
                if k == "content":
                    rows.append([sxstr(p), KIND["file"], injected[2]])
                elif k == "EACCES":
                    rows.append([sxstr(p), KIND["EACCES_DIR"] if os.path.isdir(p) else KIND["EACCES"], b""])
                else:
                    rows.append([sxstr(p), KIND["OTHER"], b""])
            else:
                rows.append([sxstr(p)] + probe(p))
        return rows

    def parse_out(self, ln, res):
        if res.startswith("!") or res.startswith("#"):
            raise RuntimeError(f"{self.ident}: driver rejected case {ln[:300]} -> {res[:100]}")
        return unsx(res)

    # ---- histories on one long-lived handler: requests interleaved with changes of the served file and with
    #      faults injected into the next open()
    def set_state(self, rel, state):
        p = os.path.join(fileh.base_dir(), rel)
        parent = os.path.dirname(p)
        if os.path.lexists(parent) and not os.path.isdir(parent):
            os.remove(parent)                     # a swapped parent becomes a directory again
        if os.path.isdir(p) and not os.path.islink(p):
            shutil.rmtree(p)
        elif os.path.lexists(p):
            os.remove(p)
        if state == "dir":
            os.makedirs(p)
        elif state is not None:
            fileh.write_file(rel, state)

    def eval_histories(self, cs):
        """three phases so that the driver is started three times per batch, not per history"""
        # 1. which paths does the model want the oracle for (depends on configuration and request only)
        qlines, subs_all = [], []
        for c in cs:
            cached = bool(c["cfg"]["template"] and c.get("cache", True))
            subs = {"R": dict(c, uri=c["uri"], cached=cached), "G": dict(c, uri="/g.txt", cached=cached)}
            subs_all.append((subs, cached))
            qlines.extend(sx([0] + self.cfgline(subs[op])) for op in ("R", "G"))
        q = run_model(self.ident, qlines)
        # 2. run every history against the real handler, asking the file-system oracle after each request
        all_steps = []
        for k, c in enumerate(cs):
            subs, cached = subs_all[k]
            wanted = {"R": self.paths_of(q[2 * k], subs["R"]), "G": self.paths_of(q[2 * k + 1], subs["G"])}
            all_steps.append(self.run_history(c, subs, wanted))
        # 3. judge every request step
        lines = [self.full_line(sc, o, None, tb) for steps in all_steps for sc, o, tb in steps]
        outs = run_model(self.ident, lines) if lines else []
        res, pos = [], 0
        for k, c in enumerate(cs):
            steps = all_steps[k]
            m, fm, fi = [], [], []
            covered = 1       # a history is within the theorem's hypotheses iff every step is
            for ln, r in zip(lines[pos:pos + len(steps)], outs[pos:pos + len(steps)]):
                r = self.parse_out(ln, r)
                m.append(self.blank_opened(r[0]))
                if len(r) < 5 or r[4] != 1:
                    covered = 0
                fm.extend(x for x in names(r[1]) if x not in fm)
                fi.extend(x for x in names(r[2]) if x not in fi)
            pos += len(steps)
            ho = HistObs(o for _, o, _ in steps)
            ho.cached = subs_all[k][1]
            res.append((c, ho, m, fm, fi, [[], covered]))
        return res

    def run_history(self, c, subs, wanted):
        cfg, tftp = c["cfg"], c["tftp"]
        hfile = c.get("hfile", "f.txt")                        # the file the history plays with, below hroot/
        uris = {"R": c["uri"], "G": "/g.txt"}
        # fresh tree and fresh handler for every history
        top = os.path.join(fileh.base_dir(), "hroot")
        shutil.rmtree(top, ignore_errors=True)
        frel = "hroot/" + hfile
        fabs = os.path.join(fileh.base_dir(), ("hlink/" if c.get("link") else "hroot/") + hfile)
        self.set_state(frel, HIST_CONTENT["W0"])
        self.set_state("hroot/g.txt", "gee\n")
        if c.get("link"):
            # root_dir is a symbolic link that op L re-points to a second tree during the handler's life
            for rel, content in (("hroot2/" + hfile, "the other tree\n"), ("hroot2/g.txt", "gee two\n")):
                self.set_state(rel, content)
            link = os.path.join(fileh.base_dir(), "hlink")
            if os.path.lexists(link):
                os.remove(link)
            os.symlink("hroot", link)
        h = fileh.build(cfg, tftp, template_cache=c.get("cache", True))
        h.set_data_source(RecordingSource({}, []))
        steps = []
        pending = None
        try:
            for op in c["hist"]:
                if op in uris:
                    injected = None
                    if pending is not None and op == "R":
                        # errno faults stand for errors of an object that exists; swaps need a regular file to start from
                        # EACCES stands for an object that exists (on a directory: the Windows-like case the code
                        # handles); EIO / ELOOP only for a regular file - a handler need not open anything else at all
                        ok = os.path.lexists(fabs) if pending == "EACCES" else os.path.isfile(fabs)
                        before = None
                        if ok:
                            _FAULT["armed"] = {"path": fabs, "kind": pending}
                            _FAULT["fired"] = False
                            if pending in ERRNO_FAULTS:
                                injected = (fabs, pending)     # the plan: open(fabs) answers this errno
                            elif pending.startswith("race_"):
                                with _builtin_open(fabs, "rb") as f0:
                                    before = f0.read()
                    o = self.run_request(h, cfg, tftp, uris[op])
                    if pending is not None and pending.startswith("race_") and _FAULT["fired"]:
                        injected = (fabs, "content", before)   # open() succeeded before the change: it yields the old file
                    _FAULT["armed"] = None
                    _FAULT["fired"] = False
                    pending = None
                    # the file-system oracle is asked at this moment, before the next change
                    steps.append((subs[op], o, self.probe_table(wanted[op], o, injected)))
                elif op.startswith("X:"):
                    pending = op[2:]
                elif op == "L":
                    link = os.path.join(fileh.base_dir(), "hlink")
                    now = os.readlink(link)
                    os.symlink("hroot2" if now == "hroot" else "hroot", link + ".new")
                    os.replace(link + ".new", link)
                elif op == "A":
                    self.set_state(frel, None)
                elif op == "D":
                    self.set_state(frel, "dir")
                else:
                    self.set_state(frel, HIST_CONTENT[op])
        finally:
            _FAULT["armed"] = None
        return steps

    def nontrivial(self, c, obs):
        if "hist" in c:
            return (("hist", c["tftp"], c["cfg"]["template"], c.get("cache", True), c["uri"], tuple(c["hist"]))
                    if any(op != "R" and op != "G" for op in c["hist"]) else None)
        u = c["uri"]
        if obs[1] and not c["cfg"]["filemode"] and (obs[3] != 3 or any(t in u for t in ("%", "..", "\\", "\0", "//", "/./"))):
            return (json.dumps(c["cfg"], sort_keys=True), c["tftp"], u)
        return None

    def show(self, c):
        if "hist" in c:
            return {"tftp": c["tftp"], "cfg": c["cfg"], "uri": "history " + " ".join(c["hist"]), "hist": c["hist"],
                    "hfile": c.get("hfile", "f.txt"), "cache": c.get("cache", True),
                    "legend": "one handler; R = request c.uri (serves hroot/<hfile>), G = request /g.txt; A = remove the "
                              "file; D = replace it by a directory; W1/W2 = rewrite it; X:<k> = the next R's open() of the "
                              "file fails with errno k (EACCES/EIO/ELOOP) or, at that moment, the file becomes a "
                              "directory (swapdir) / its parent becomes a regular file (swapparent)"}
        d = {"tftp": c["tftp"], "cfg": c["cfg"], "uri": c["uri"], "uri_hex": c["uri"].encode("latin-1").hex()}
        if c.get("via_server"):
            d["via_server"] = "the request travels through the real HttpServer / TftpServer in front of the handler"
            d["wire"] = c.get("wire")
        return d

    def shrink(self, c):
        if c.get("via_server"):
            # shrink what goes over the wire; the handler-level string follows from it
            for cand in self._shrink(dict(c, uri=c["wire"])):
                if fileh.servable(cand["tftp"], cand["uri"]):
                    yield dict(cand, wire=cand["uri"], uri=fileh.wire_to_handler(cand["tftp"], cand["uri"]))
            return
        yield from self._shrink(c)

    def _shrink(self, c):
        if "hist" in c:
            for i in range(len(c["hist"])):
                yield dict(c, hist=c["hist"][:i] + c["hist"][i + 1:])
            return
        u = c["uri"]
        order = sorted(ALPHABET, key=len, reverse=True)
        toks, i = [], 0
        while i < len(u):
            for t in order:
                if u.startswith(t, i):
                    toks.append(t)
                    i += len(t)
                    break
            else:
                toks.append(u[i])
                i += 1
        if len(toks) > 40:
            yield dict(c, uri="".join(toks[:len(toks) // 2]))
            yield dict(c, uri="".join(toks[len(toks) // 2:]))
            yield dict(c, uri="".join(toks[:len(toks) * 3 // 4]))
            return
        for i in range(len(toks)):
            yield dict(c, uri="".join(toks[:i] + toks[i + 1:]))


if __name__ == "__main__":
    raise SystemExit(C04().main())
