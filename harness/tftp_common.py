"""
Shared Python side of the TFTP transfer properties (C01, C02, C07, C09-transfer):
case construction, running the real _TftpReadRequest under fake_net, trace canonicalisation,
script generators.  Case layout mirrors coq/theories/Tftp/Run.v:de_tcase.
"""
import io
import os
import struct
import tempfile

import common
from common import sx
import fake_net
from fake_net import CLI, OTH

# 1: same host, other port; 2: other host, same port as the client; 3: other host and port;
# 4: source port 0 (the fake socket's sendto to it fails with EINVAL, as the real one's does)
# 5 / 6: the client's host and port with another scope id / flow info: other socket addresses, hence foreign
ADDRS = {0: CLI, 1: OTH, 2: ("::2", 5555, 0, 0), 3: ("2001:db8::7", 4711, 0, 0), 4: ("2001:db8::9", 0, 0, 0),
         5: (CLI[0], CLI[1], 0, 3), 6: (CLI[0], CLI[1], 9, 0)}
ADDR_ID = {v: k for k, v in ADDRS.items()}
TICKS = 1024


def ack(n):
    return b"\x00\x04" + struct.pack("!H", n & 0xFFFF)


def err(code, msg=b"x"):
    return b"\x00\x05" + struct.pack("!H", code) + msg + b"\x00"


def mk_case(content=b"", chunks=(), netascii=False, options=(), max_bs=65464, max_tmo=30, default_tmo=2,
            retries=1, wrap=0, kind=("noreg",), events=(), proc=0):
    """kind: ("noreg",) ChunkedStream without fileno | ("bytesio", prefix_len) | ("file", prefix_len) | ("pipe",) |
    ("sized",) | ("bufshort",) | ("seekpos", prefix_len) seekable stream without fileno handed over at prefix_len"""
    return {"content": bytes(content), "chunks": list(chunks), "netascii": bool(netascii),
            "options": [(str(a), str(b)) for a, b in options], "max_bs": max_bs, "max_tmo": max_tmo,
            "default_tmo": default_tmo, "retries": retries, "wrap": wrap, "kind": tuple(kind),
            "events": [(int(t), int(a), bytes(d)) for (t, a, d) in events],
            # ticks the server needs to take one datagram off the socket (the fake clock advances by it)
            "proc": int(proc)}


def kind_sx(c):
    k = c["kind"]
    n = len(c["content"])
    if k[0] in ("noreg", "bufshort", "sized", "seekpos"):
        return [2]
    # optional third element: the position is that many bytes BEYOND the end (legal for BytesIO and files;
    # the content of such a case is empty: nothing can be read there)
    beyond = k[2] if len(k) > 2 else 0
    assert not (beyond and n), "a stream positioned beyond its end has no content to deliver"
    if k[0] == "bytesio":
        return [0, n + k[1], k[1] + beyond]
    if k[0] == "file":
        return [1, n + k[1], k[1] + beyond, 1]
    if k[0] == "pipe":
        return [1, 0, 0, 0]
    raise ValueError(k)


def ticks(seconds):
    """seconds (int or float, as default_timeout / max_timeout may be) -> clock ticks of 1/1024 s; the generators only
    use values that are exact in ticks"""
    t = seconds * TICKS
    assert t == int(t), f"{seconds!r} s is not a whole number of ticks"
    return int(t)


def case_sx(c, variants=(0, 0, 0, 0, 0, 0)):
    return [c["content"], c["chunks"], c["netascii"], [[a, b] for a, b in c["options"]],
            [c["max_bs"], ticks(c["max_tmo"]), ticks(c["default_tmo"])], c["retries"],
            -1 if c["wrap"] is None else c["wrap"], kind_sx(c),
            [[t, a, d] for (t, a, d) in c["events"]], c.get("proc", 0), (list(variants) + [0] * 6)[:6]]


class _LoggedFile:
    """wraps the handler's file object so that its close() is visible in the trace"""
    def __init__(self, f, log):
        self._f = f
        self._log = log

    def __getattr__(self, name):
        return getattr(self._f, name)

    def __enter__(self):
        self._f.__enter__()
        return self

    def __exit__(self, *a):
        self._log.append(("close_file",))
        return self._f.__exit__(*a)


class SizedStream(fake_net.ChunkedStream):
    """knows its length (len(f), like mmap.mmap); handed to the code unwrapped so that len() is visible"""
    _log = None

    def __len__(self):
        return len(self.content)

    def __bool__(self):
        return True

    def __exit__(self, *a):
        if self._log is not None:
            self._log.append(("close_file",))
        return super().__exit__(*a)


class SeekableStream(fake_net.ChunkedStream):
    """seekable, without a file descriptor (like a ZIP member or a decompressing reader), handed over at position
    `prefix`: what the handler supplies is what read() returns from there on; its size is unknown to os.fstat"""
    _log = None

    def __init__(self, prefix, content, chunks):
        super().__init__(b"P" * prefix + bytes(content), chunks)
        self.pos = prefix

    def seekable(self):
        return True

    def tell(self):
        return self.pos

    def seek(self, offset, whence=io.SEEK_SET):
        base = {io.SEEK_SET: 0, io.SEEK_CUR: self.pos, io.SEEK_END: len(self.content)}[whence]
        if base + offset < 0:
            raise ValueError("negative seek position")
        self.pos = base + offset
        return self.pos

    def __exit__(self, *a):
        if self._log is not None:
            self._log.append(("close_file",))
        return super().__exit__(*a)


class BufferedChunkedStream(io.BufferedIOBase):
    """an io.BufferedIOBase subclass whose read(n) still returns short reads (allowed: "at most n bytes")"""
    _log = None

    def __init__(self, content, chunks):
        super().__init__()
        self._raw = fake_net.ChunkedStream(content, chunks)

    def __exit__(self, *a):
        if self._log is not None:
            self._log.append(("close_file",))
        return super().__exit__(*a)

    def readable(self):
        return True

    def read(self, n=-1):
        return self._raw.read(n)

    def read1(self, n=-1):
        return self._raw.read(n)

    def fileno(self):
        raise io.UnsupportedOperation("fileno")


class _LoggedBytesIO(io.BytesIO):
    """a real io.BytesIO (so that isinstance checks in the code under test hold) whose release is logged"""
    _log = None

    def __exit__(self, *a):
        if self._log is not None:
            self._log.append(("close_file",))
        return super().__exit__(*a)


def open_stream(c, log, tmpfiles):
    k = c["kind"]
    if k[0] == "noreg":
        f = fake_net.ChunkedStream(c["content"], c["chunks"])
    elif k[0] == "sized":
        # a stream that knows its length (len(f), like mmap.mmap) but has no usable file descriptor: for the
        # unchanged code this is a stream of unknown size
        f = SizedStream(c["content"], c["chunks"])
        f._log = log
    elif k[0] == "bufshort":
        f = BufferedChunkedStream(c["content"], c["chunks"])
        f._log = log
    elif k[0] == "seekpos":
        f = SeekableStream(k[1], c["content"], c["chunks"])
        f._log = log
    elif k[0] == "bytesio":
        f = _LoggedBytesIO(b"P" * k[1] + c["content"])
        f._log = log
        f.seek(k[1] + (k[2] if len(k) > 2 else 0))
    elif k[0] == "file":
        fd, path = tempfile.mkstemp(prefix="vf_tsize_")
        os.write(fd, b"P" * k[1] + c["content"])
        os.close(fd)
        tmpfiles.append(path)
        f = open(path, "rb")
        f.seek(k[1] + (k[2] if len(k) > 2 else 0))
    elif k[0] == "pipe":
        r, w = os.pipe()
        os.write(w, c["content"])      # callers keep pipe content below the pipe buffer size
        os.close(w)
        f = os.fdopen(r, "rb")
    else:
        raise ValueError(k)
    return f


def parse_packet(data):
    """bytes sent by the server -> structural packet as in Tftp.Run.sx_pkt; strict about well-formedness"""
    if len(data) >= 4 and data[:2] == b"\x00\x03":
        return [3, struct.unpack("!H", data[2:4])[0], data[4:]]
    if len(data) >= 2 and data[:2] == b"\x00\x06":
        parts = data[2:].split(b"\x00")
        if parts[-1] != b"" or len(parts) % 2 != 1 or len(parts) < 3:
            return [99, data]
        return [6, [[parts[i], parts[i + 1]] for i in range(0, len(parts) - 1, 2)]]
    if len(data) >= 5 and data[:2] == b"\x00\x05":
        msg = data[4:]
        if not msg.endswith(b"\x00") or b"\x00" in msg[:-1] or any(ch >= 128 for ch in msg):
            return [99, data]
        return [5, struct.unpack("!H", data[2:4])[0]]
    return [99, data]


def run_impl(c, handler=None):
    """run the real transfer; returns the trace as nested lists (sx-able)"""
    tmpfiles = []
    loghook = []

    def default_handler(filename, client, server, context):
        f = open_stream(c, loghook, tmpfiles)
        return f if isinstance(f, (_LoggedBytesIO, BufferedChunkedStream, SizedStream)) else _LoggedFile(f, loghook)
    script = [(t, ADDRS[a], d) for (t, a, d) in c["events"]]
    try:
        log = fake_net.run_transfer(script, handler or default_handler, dict(c["options"]),
                                    mode="netascii" if c["netascii"] else "octet",
                                    default_timeout=c["default_tmo"], max_timeout=c["max_tmo"],
                                    max_retries=c["retries"], max_block_size=c["max_bs"], wrap=c["wrap"],
                                    shared_log=loghook, proc=c.get("proc", 0))
    finally:
        for p in tmpfiles:
            try:
                os.remove(p)
            except OSError:
                pass
    out = []
    for e in log:
        if e[0] == "send":
            out.append([1, e[1], ADDR_ID.get(e[2], 9), parse_packet(e[3])])
        elif e[0] == "recv":
            out.append([2, e[1], ADDR_ID.get(e[2], 9), e[3]])
        elif e[0] == "timeout":
            out.append([3, e[1]])
        elif e[0] == "logexc":
            out.append([4])
        elif e[0] == "close_file":
            out.append([5])
        elif e[0] == "close_sock":
            out.append([6])
        elif e[0] == "hang":
            out.append([98])
    return out


# ----------------------------------------------------------------------------- script generators
def coop_script(rng, wants, tmo_ticks, retries, fault_rate=0.5, t0=0):
    """a client that acknowledges everything, with bounded faults per packet:
    lost rounds (< retries+1 in a row), stale/duplicate/future ACKs, foreign and garbage-free noise"""
    ev = []
    t = t0
    prev = None
    for w in wants:
        if rng.random() < fault_rate:
            lost = rng.randrange(0, retries + 1)
            t += lost * tmo_ticks
        for _ in range(rng.randrange(0, 3) if rng.random() < fault_rate else 0):
            k = rng.random()
            dt = rng.choice([0, 1, tmo_ticks // 3])
            if t + dt >= t + tmo_ticks - 1:
                dt = 0
            if k < 0.4 and prev is not None:
                ev.append((t + dt, 0, ack(prev)))          # duplicate / stale
            elif k < 0.6:
                ev.append((t + dt, 0, ack(w + 1)))          # future
            elif k < 0.8:
                ev.append((t + dt, rng.choice([1, 2, 3, 4, 5, 6]), ack(w)))   # foreign sender
            else:
                ev.append((t + dt, 0, ack(w + 2)))
            t += dt
        dt = rng.choice([0, 1, tmo_ticks // 2, tmo_ticks - 1 - 0])
        if dt >= tmo_ticks:
            dt = tmo_ticks - 1
        # keep inside the current retry interval
        ev.append((t + min(dt, tmo_ticks - 1), 0, ack(w)))
        t = t + min(dt, tmo_ticks - 1)
        prev = w
    return ev


def numbering(nblocks, wrap):
    out = []
    n = 0
    for _ in range(nblocks):
        if n == 65535:
            if wrap is None:
                break
            n = wrap
        else:
            n += 1
        out.append(n)
    return out


PACKET_ALPHABET = [
    ("ack0", ack(0)), ("ack1", ack(1)), ("ack2", ack(2)), ("ack3", ack(3)),
    ("err0", err(0)), ("err5", err(5)), ("err9", err(9, b"")), ("errshort", b"\x00\x05"),
    ("short", b"\x00"), ("empty", b""), ("ack5b", b"\x00\x04\x00\x01\x00"), ("ack3b", b"\x00\x04\x00"),
    ("op7", b"\x00\x07ab"), ("data", b"\x00\x03\x00\x01x"), ("rrq", b"\x00\x01f\x00octet\x00"),
    ("oack", b"\x00\x06blksize\x008\x00"), ("op0", b"\x00\x00\x00\x01"), ("err8", err(8)), ("err1", err(1, b"")),
    ("err3nonul", b"\x00\x05\x00\x03abc"), ("err2latin", b"\x00\x05\x00\x02\xe4\xff\x00"),
]


def time_steps(tmo_ticks):
    return [0, 1, tmo_ticks // 2, tmo_ticks - 1, tmo_ticks, tmo_ticks + 1, 2 * tmo_ticks]
