(* One complete read transfer as the real _TftpReadRequest performs it:
   negotiation, reader, transfer machine.  Shared case type of C01/C02/C07/C09
   with its sx decoding and the sx encoding of traces.  Definitions only. *)
From Coq Require Import String.
From Coq Require Import List NArith ZArith Bool.
From VF Require Import Base.Sx Tftp.Readers Tftp.Codec Tftp.Transfer.
Import ListNotations.

Definition TICKS : Z := 1024.     (* clock ticks per second in the simulation *)

Record tcase := {
  t_content : list N;
  t_chunks : list nat;
  t_netascii : bool;
  t_options : list (str * str);      (* as decoded from the read request *)
  t_limits : limits;
  t_retries : nat;
  t_wrap : option N;
  t_kind : stream_kind;
  t_events : list event;
  t_proc : Z;                        (* ticks the server needs per received datagram *)
  t_v : variants;
  t_nv : nvariants;
  t_na_always_skip : bool            (* D4 variant of the netascii reader *)
}.

Definition t_neg (c : tcase) : negotiated :=
  negotiate (t_nv c) (t_limits c) (t_netascii c) (t_kind c) (t_options c).
Definition t_cfg (c : tcase) : cfg :=
  {| tmo := Z.of_N (n_tmo (t_neg c)); retries := t_retries c; wrap := t_wrap c; proc := t_proc c; v := t_v c |}.
Definition t_blocks (c : tcase) : list (list N) :=
  let bs := N.to_nat (n_bs (t_neg c)) in
  if t_netascii c then netascii_blocks (t_na_always_skip c) bs (t_content c) (t_chunks c)
  else octet_blocks bs (t_content c) (t_chunks c).
Definition run_transfer_case (c : tcase) : list tr :=
  transfer (t_cfg c) (n_oack (t_neg c)) (t_blocks c) (t_events c).

(* ---------- sx ---------- *)
Definition sx_pair (p : str * str) : sx := L [B (fst p); B (snd p)].
Definition sx_pkt (p : pkt) : sx :=
  match p with
  | PData n d => L [I 3; sxN n; B d]
  | POack o => L [I 6; L (map sx_pair o)]
  | PError c => L [I 5; sxN c]
  | PMalformed r => L [I 99; B r]
  end.
Definition sx_tr (e : tr) : sx :=
  match e with
  | TSend t a p => L [I 1; I t; sxN a; sx_pkt p]
  | TRecv t a d => L [I 2; I t; sxN a; B d]
  | TTimeout t => L [I 3; I t]
  | TLogExc => L [I 4]
  | TCloseFile => L [I 5]
  | TCloseSock => L [I 6]
  end.
Definition sx_trace (l : list tr) : sx := L (map sx_tr l).

Definition de_pair (x : sx) : option (str * str) :=
  match x with L [B a; B b] => Some (a, b) | _ => None end.
Definition de_pkt (x : sx) : option pkt :=
  match x with
  | L [I 3%Z; n; B d] => obind (asN n) (fun n => Some (PData n d))
  | L [I 6%Z; o] => obind (asListOf de_pair o) (fun o => Some (POack o))
  | L [I 5%Z; c] => obind (asN c) (fun c => Some (PError c))
  | L [I 99%Z; B r] => Some (PMalformed r)
  | _ => None
  end.
Definition de_tr (x : sx) : option tr :=
  match x with
  | L [I 1%Z; I t; a; p] => obind (asN a) (fun a => obind (de_pkt p) (fun p => Some (TSend t a p)))
  | L [I 2%Z; I t; a; B d] => obind (asN a) (fun a => Some (TRecv t a d))
  | L [I 3%Z; I t] => Some (TTimeout t)
  | L [I 4%Z] => Some TLogExc
  | L [I 5%Z] => Some TCloseFile
  | L [I 6%Z] => Some TCloseSock
  | _ => None
  end.
Definition de_trace (x : sx) : option (list tr) := asListOf de_tr x.

Definition de_event (x : sx) : option event :=
  match x with
  | L [I t; a; B d] => obind (asN a) (fun a => Some (Recv t a d))
  | _ => None
  end.
Definition de_kind (x : sx) : option stream_kind :=
  match x with
  | L [I 0%Z; s; p] => obind (asN s) (fun s => obind (asN p) (fun p => Some (KBytesIO s p)))
  | L [I 1%Z; s; p; r] => obind (asN s) (fun s => obind (asN p) (fun p => obind (asBool r) (fun r => Some (KRealFile s p r))))
  | L [I 2%Z] => Some KNoFileno
  | _ => None
  end.
Definition de_wrap (x : sx) : option (option N) :=
  match x with I z => if (z <? 0)%Z then Some None else Some (Some (Z.to_N z)) | _ => None end.

(* (content chunks netascii options (max_bs max_tmo default_tmo) retries wrap kind events proc (d1 d5 d2 d3 d4 d20)) *)
Definition de_tcase (x : sx) : option tcase :=
  match x with
  | L [B ct; ch; na; op; L [mb; mt; dt]; rt; wr; kd; ev; I pr; L [d1; d5; d2; d3; d4; d20]] =>
      obind (asListOf asNat ch) (fun ch =>
      obind (asBool na) (fun na =>
      obind (asListOf de_pair op) (fun op =>
      obind (asN mb) (fun mb => obind (asN mt) (fun mt => obind (asN dt) (fun dt =>
      obind (asNat rt) (fun rt =>
      obind (de_wrap wr) (fun wr =>
      obind (de_kind kd) (fun kd =>
      obind (asListOf de_event ev) (fun ev =>
      obind (asBool d1) (fun d1 => obind (asBool d5) (fun d5 => obind (asBool d2) (fun d2 =>
      obind (asBool d3) (fun d3 => obind (asBool d4) (fun d4 => obind (asBool d20) (fun d20 =>
      Some {| t_content := ct; t_chunks := ch; t_netascii := na; t_options := op;
              t_limits := {| max_bs := mb; max_tmo := mt; default_tmo := dt |};
              t_retries := rt; t_wrap := wr; t_kind := kd; t_events := ev; t_proc := pr;
              t_v := {| retry_fallthrough := d1; errcode_raises := d5; late_recv := d20 |};
              t_nv := {| blksize_drop_over_max := d2; tsize_ignores_pos := d3 |};
              t_na_always_skip := d4 |}))))))))))))))))
  | _ => None
  end.
