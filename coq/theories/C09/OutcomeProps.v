(* C09 (what the transfer thread does with the request handler's result): property theorems only. *)
From Coq Require Import List NArith Bool.
From VF Require Import Tftp.PacketBuild Tftp.HandlerOutcome.
Import ListNotations.

(* the checker accepts the model's behaviour for every handler result: a TftpError is exactly one ERROR packet with
   the handler's code and message and no logged exception; another exception exactly one ERROR packet with code 0;
   the thread ends and releases its socket *)
Theorem C09_handler_outcome_holds : forall o, holds_outcome o (run_outcome o) = [].
Proof. exact outcome_holds. Qed.
Print Assumptions C09_handler_outcome_holds.

Theorem C09_handler_outcome_one_reply : forall o, length (o_packets (run_outcome o)) = 1%nat.
Proof. exact outcome_one_reply. Qed.
Print Assumptions C09_handler_outcome_one_reply.

(* the ERROR packet is well formed: the client reads back exactly the code and the message *)
Theorem C09_error_packet_roundtrip : forall c m, (c < 65536)%N -> nul_free m = true ->
  dec_error (enc_error c m) = Some (c, m).
Proof. exact error_roundtrip. Qed.
Print Assumptions C09_error_packet_roundtrip.

(* non-vacuity: a file-not-found answer and a short file *)
Example C09_handler_outcome_examples :
  valid_outcome (OTftpError 1 [70; 105; 108; 101]) = true /\ valid_outcome (OStream [1; 2; 3]) = true /\
  dec_error (enc_error 1 [70; 105; 108; 101]) = Some (1%N, [70; 105; 108; 101]%N).
Proof. vm_compute. auto. Qed.
