"""Finding what the harnesses need on live objects WITHOUT private attribute names: the socketserver instance
behind an HttpServer, its request-handler class, the UDP socket of a TftpServer, the jinja2.Environment of an
engine, the loggers of a module.  Objects are found by their TYPE among the instance's attributes."""
import logging
import socket
import socketserver


def attr_of_type(obj, typ, what):
    hits = [(k, v) for k, v in vars(obj).items() if isinstance(v, typ)]
    if not hits:
        raise LookupError("%s: no attribute of type %s on %r" % (what, typ, type(obj).__name__))
    return hits[0]


def base_server(http_server):
    """the socketserver.BaseServer instance of a started HttpServer"""
    return attr_of_type(http_server, socketserver.BaseServer, "HTTP server")[1]


def handler_class(http_server):
    return base_server(http_server).RequestHandlerClass


def udp_socket_attr(tftp_server):
    """(attribute name, socket) of a started TftpServer"""
    hits = [(k, v) for k, v in vars(tftp_server).items()
            if isinstance(v, socket.socket) or (hasattr(v, "recvmsg") and hasattr(v, "getsockname"))]
    if not hits:
        raise LookupError("TFTP server: no socket attribute")
    return hits[0]


def udp_socket(tftp_server):
    return udp_socket_attr(tftp_server)[1]


def module_loggers(module):
    found = [v for v in vars(module).values() if isinstance(v, logging.Logger)]
    return found or [logging.getLogger(module.__name__)]


def jinja_environment(engine):
    import jinja2
    return attr_of_type(engine, jinja2.Environment, "template engine")[1]


def handler_class_in_module(module):
    """the request-handler class a server module defines (before any server object exists)"""
    import http.server
    hits = [v for v in vars(module).values() if isinstance(v, type) and issubclass(v, http.server.BaseHTTPRequestHandler)
            and v.__module__ == module.__name__]
    if not hits:
        raise LookupError("no BaseHTTPRequestHandler subclass in %s" % module.__name__)
    return hits[0]
