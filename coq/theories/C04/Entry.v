(* C04: case/observation types, run_model, the executable checker [holds], sx entry point.
   Protocol: (0 case) asks which paths the model wants the file-system oracle for;
             (1 case table impl_obs) is the ordinary evaluation. *)
From Coq Require Import String.
From Coq Require Import List NArith ZArith Bool Arith.
From VF Require Import Base.Sx FileH.Str FileH.Unquote FileH.PosixPath FileH.Handler FileH.Spec FileH.Codec.
Import ListNotations.
Open Scope N_scope.

(* oracle answers: kind 0 = regular file (content), 1 ENOENT, 2 EISDIR, 3 ENOTDIR, 4 ENAMETOOLONG, 5 EACCES,
   6 other OSError, 7 EACCES for a directory *)
Definition fs_table := list (str * N * str).
Definition fsr_of (kind : N) (content : str) : fsr :=
  if kind =? 0 then FsOpened content else if kind =? 1 then FsENOENT else if kind =? 2 then FsEISDIR
  else if kind =? 3 then FsENOTDIR else if kind =? 4 then FsENAMETOOLONG else if kind =? 5 then FsEACCES
  else if kind =? 7 then FsEACCES_DIR else FsEOTHER.
Fixpoint table_lookup (t : fs_table) (p : str) : option fsr :=
  match t with
  | [] => None
  | (q, kind, content) :: r => if eqb_str p q then Some (fsr_of kind content) else table_lookup r p
  end.
(* a path the table does not know counts as "other error"; [holds] reports it separately *)
Definition table_open (t : fs_table) (p : str) : fsr :=
  match table_lookup t p with Some a => a | None => FsEOTHER end.

Record case := {
  k_tftp : bool;
  k_old232 : bool;          (* variant before commit 232ac55 *)
  k_cached : bool;          (* the template engine caches compiled templates: whether a request opens its file
                               depends on earlier requests, so the opened paths are only required to be confined *)
  k_cfg : config;
  k_uri : str;
  k_table : fs_table
}.

Record obs := {
  o_init : bool;
  o_matches : bool;
  o_opened : list str;      (* every path opened while handling *)
  o_class : N;              (* 0 not found, 1 forbidden, 2 error, 3 content, 4 not handled *)
  o_body : str
}.

Definition class_of (r : result) : N :=
  match r with RNotFound => 0 | RForbidden => 1 | RError => 2 | RContent _ _ => 3 end.
Definition body_of (r : result) : str := match r with RContent b _ => b | _ => [] end.

(* the data source of the C04 runs: every id exists, its data is empty *)
Definition T_id (v : str) : option str := Some v.
Definition FS_none (k v : str) : fsres := FNone.
Definition GD_some (i : str) : gdres := GOk [].

Definition eff_uri (k : case) : str := if k_tftp k then norm_name (k_uri k) else k_uri k.

Definition obs_nomatch (init : bool) : obs :=
  {| o_init := init; o_matches := false; o_opened := []; o_class := 4; o_body := [] |}.

(* With a template engine the file is opened by the Jinja loader, which first makes the name absolute with
   os.path.abspath, i.e. normalises it LEXICALLY (known finding D27: for a configured path with a symbolic link followed
   by ".." that is another file).  For the absolute paths of the model abspath = normpath. *)
Definition loader_path (c : config) (p : str) : str := if c_template c then normpath p else p.

Definition run_model (k : case) : obs :=
  match handler_init (k_tftp k) (k_cfg k) with
  | Exc _ => obs_nomatch false
  | Ok r =>
      let u := if k_tftp k then rewrite_filename false (k_uri k) else k_uri k in
      let x := prepare_context (k_cfg k) r u in
      if matches x then
        let '(_, opened, res) := handle (k_old232 k) T_id FS_none GD_some
                                        (fun p => table_open (k_table k) (loader_path (k_cfg k) p)) (k_cfg k) r x in
        {| o_init := true; o_matches := true;
           o_opened := if k_cached k then [] else map (loader_path (k_cfg k)) opened;
           o_class := class_of res; o_body := body_of res |}
      else obs_nomatch true
  end.

(* paths whose oracle answer the model needs *)
Definition wanted (k : case) : list str :=
  match handler_init (k_tftp k) (k_cfg k) with
  | Exc _ => []
  | Ok r =>
      let u := if k_tftp k then rewrite_filename false (k_uri k) else k_uri k in
      let x := prepare_context (k_cfg k) r u in
      if matches x then
        match handle_plan T_id FS_none GD_some (k_cfg k) r x with
        | (_, PServe p _) => [p]
        | _ => []
        end
      else []
  end.

(* ---- the property, stated on the request alone (Spec.v) ---- *)
(* the one file this request may touch: the configured file, or root ++ "/" ++ named segments ++ suffix *)
Definition named_file (k : case) (r : rp) : option str :=
  let sx := spec_ctx (k_cfg k) r (eff_uri k) in
  if matches sx then
    if c_filemode (k_cfg k) then Some (c_target (k_cfg k))
    else match extra_path sx with Some e => spec_path (k_cfg k) e | None => None end
  else None.

Definition subset_of_one (l : list str) (w : option str) : bool :=
  match l, w with
  | [], _ => true
  | [p], Some q => eqb_str p q
  | _, _ => false
  end.

Definition is_ok {A} (r : res A) : bool := match r with Ok _ => true | Exc _ => false end.

(* the configured root is absolute, has no trailing slash and is lexically normalised *)
Definition root_okb (root : str) : bool :=
  starts_with [SL] root && negb (ends_with [SL] root) && eqb_str (normpath root) root.
(* For such a root (and in file mode) an existing regular file must be served.  For any other spelling of root_dir
   ("./x", "a/../x", "x/.", a symbolic link followed by "..") the statement of C04 is taken by its letter: the handler
   either answers not-found without opening anything or serves exactly the file that root_dir/<path> denotes to the
   operating system - never another one (the unchanged code answers not-found for all of them, see docs/C04.md). *)
Definition must_serve (k : case) : bool := c_filemode (k_cfg k) || root_okb (c_target (k_cfg k)).

Definition holds (k : case) (o : obs) : list string :=
  match handler_init (k_tftp k) (k_cfg k) with
  | Exc _ => if o_init o then ["init_accepts"%string] else []
  | Ok r =>
      if negb (o_init o) then ["init_accepts"%string] else
      let w := named_file k r in
      (* the request is handled iff the matching rule says so (a handler that declines a request for an existing file
         does not serve "the regular file located at root_dir/<decoded remaining path>") *)
      (if Bool.eqb (o_matches o) (matches (spec_ctx (k_cfg k) r (eff_uri k))) then [] else ["handled_iff_matching_rule"%string]) ++
      (* confined: nothing but the named file is ever opened; nothing at all when the request is not handled *)
      (if subset_of_one (o_opened o) w && (o_matches o || is_nil (o_opened o)) then [] else ["confined"%string]) ++
      (if c_filemode (k_cfg k) && negb (forallb (eqb_str (c_target (k_cfg k))) (o_opened o))
       then ["file_mode_single_file"%string] else []) ++
      (if o_matches o then
         match w with
         | None => if o_class o =? 0 then [] else ["unnamed_is_not_found"%string]
         | Some p =>
             match table_lookup (k_table k) p with
             | None => ["oracle_missing"%string]
             | Some (FsOpened content) =>
                 if ((o_class o =? 3) && eqb_str (o_body o) content
                     && (k_cached k || list_str_eqb (o_opened o) [p]))
                    || (negb (must_serve k) && (o_class o =? 0) && is_nil (o_opened o))
                 then [] else ["serves_the_named_file"%string]
             | Some FsENOENT | Some FsEISDIR | Some FsENOTDIR | Some FsENAMETOOLONG =>
                 if o_class o =? 0 then [] else ["not_regular_is_not_found"%string]
             | Some FsEACCES => if o_class o =? 1 then [] else ["permission_is_forbidden"%string]
             | Some FsEACCES_DIR => if o_class o =? 0 then [] else ["permission_on_directory_is_not_found"%string]
             | Some FsEOTHER => if o_class o =? 2 then [] else ["other_error_is_the_result"%string]
             end
         end
       else if (o_class o =? 4) then [] else ["not_handled"%string])
  end.

(* the hypotheses of C04_holds as a boolean (C04.Props.C04_validb_valid); every part is decidable from the case:
   current variant, lookup_no_result_action = continue, directory mode => the root is absolute, has no trailing
   slash and is normalised, and the oracle table answers for the path the model names *)
Definition validb (k : case) : bool :=
  negb (k_old232 k) && c_continue (k_cfg k) &&
  (c_filemode (k_cfg k) || root_okb (c_target (k_cfg k))) &&
  forallb (fun p => match table_lookup (k_table k) p with Some _ => true | None => false end) (wanted k) &&
  forallb (fun p => eqb_str (loader_path (k_cfg k) p) p) (wanted k).

(* the checker also needs the oracle's answer for the file the request names (it differs from what the model opens
   only when root_dir is not lexically normalised) *)
Definition named_wanted (k : case) : list str :=
  match handler_init (k_tftp k) (k_cfg k) with
  | Exc _ => []
  | Ok r => match named_file k r with Some p => [p] | None => [] end
  end.

(* ---- sx ---- *)
Definition sxObs (o : obs) : sx :=
  L [sxBool (o_init o); sxBool (o_matches o); L (map sxStr (o_opened o)); sxN (o_class o); sxStr (o_body o)].
Definition asObs (x : sx) : option obs :=
  match x with
  | L [i; m; L op; cl; b] =>
      obind (asBool i) (fun i => obind (asBool m) (fun m => obind (omap asStr op) (fun op =>
      obind (asN cl) (fun cl => obind (asStr b) (fun b =>
      Some {| o_init := i; o_matches := m; o_opened := op; o_class := cl; o_body := b |})))))
  | _ => None
  end.
Definition decode_row (x : sx) : option (str * N * str) :=
  match x with
  | L [p; I kind; B content] => obind (asStr p) (fun p => Some (p, Z.to_N kind, content))
  | _ => None
  end.
Definition decode_case (tf o2 ca cfg : sx) (uri : str) (tbl : list sx) : option case :=
  obind (asBool tf) (fun tf => obind (asBool o2) (fun o2 => obind (asBool ca) (fun ca =>
  obind (decode_config cfg) (fun cfg => obind (omap decode_row tbl) (fun tbl =>
  Some {| k_tftp := tf; k_old232 := o2; k_cached := ca; k_cfg := cfg; k_uri := uri; k_table := tbl |}))))).

Definition entry (x : sx) : sx :=
  match x with
  | L [I 0%Z; tf; o2; ca; cfg; B uri] =>
      match decode_case tf o2 ca cfg uri [] with
      | Some k => L (map sxStr (wanted k ++ map (loader_path (k_cfg k)) (wanted k) ++ named_wanted k))
      | None => sxS "bad-case"
      end
  | L [I 1%Z; tf; o2; ca; cfg; B uri; L tbl; io] =>
      match decode_case tf o2 ca cfg uri tbl, asObs io with
      | Some k, Some io =>
          let m := run_model k in
          L [ sxObs m; L (map sxS (holds k m)); L (map sxS (holds k io)); L []; sxBool (validb k) ]
      | _, _ => sxS "bad-case"
      end
  | _ => sxS "bad-case"
  end.
