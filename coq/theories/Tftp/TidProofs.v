(* TID non-interference for the transfer machine, and direct readings of the reactions to
   peer ERROR and invalid packets. *)
From Coq Require Import List NArith ZArith Bool Lia.
From VF Require Import Tftp.Transfer Tftp.MonitorProofs Tftp.Ideal Tftp.Tid.
Import ListNotations.
Open Scope Z_scope.

(* ---------- scripts ---------- *)
(* head not later than everything behind it *)
Fixpoint sorted (evs : list event) : Prop :=
  match evs with
  | [] => True
  | e :: r => Forall (fun e' => etime e <= etime e') r /\ sorted r
  end.

Lemma nondecreasing_sorted evs : nondecreasing evs -> sorted evs.
Proof.
  induction evs as [|e r IH]; intros H; cbn [sorted]; [exact Logic.I|].
  destruct H as [Hh Hr]. split; [|apply IH; exact Hr].
  clear IH. revert e Hh. induction r as [|e1 r IH2]; intros e Hh; constructor.
  - exact Hh.
  - destruct Hr as [H1 H2]. specialize (IH2 H2 e1 H1).
    eapply Forall_impl; [|exact IH2]. cbn. intros a Ha. lia.
Qed.

Lemma Forall_filter {A} (P : A -> Prop) f l : Forall P l -> Forall P (filter f l).
Proof. induction 1; cbn [filter]; [constructor|]. destruct (f x); auto. Qed.

Lemma sorted_client_only evs : sorted evs -> sorted (client_only evs).
Proof.
  induction evs as [|e r IH]; cbn [sorted client_only filter]; [auto|]. intros [H1 H2].
  destruct (from_client e); [|apply IH; exact H2].
  cbn [sorted]. split; [apply Forall_filter; exact H1|apply IH; exact H2].
Qed.

Lemma strip_app l1 l2 : strip_foreign (l1 ++ l2) = strip_foreign l1 ++ strip_foreign l2.
Proof. apply filter_app. Qed.
Lemma answered_from_app l2 : forall l1 pend, answered_from pend l1 = true ->
  answered_from pend (l1 ++ l2) = answered_from None l2.
Proof.
  induction l1 as [|x l1 IH]; intros pend H; cbn [app answered_from] in *.
  - destruct pend; [discriminate|reflexivity].
  - destruct pend as [[a t]|].
    + destruct x; try discriminate. destruct p; try discriminate.
      apply andb_true_iff in H as [H1 H2]. rewrite H1. cbn [andb]. apply IH. exact H2.
    + destruct x; try (apply IH; exact H).
      * apply andb_true_iff in H as [H1 H2]. rewrite H1. cbn [andb]. apply IH. exact H2.
      * destruct (from =? client)%N; apply IH; exact H.
Qed.
Lemma answered_app l1 l2 : foreign_answered l1 = true -> foreign_answered l2 = true ->
  foreign_answered (l1 ++ l2) = true.
Proof. unfold foreign_answered. intros H1 H2. now rewrite answered_from_app. Qed.

(* ---------- await ---------- (await0: Tftp/Ideal.v) *)
Lemma lim_eq now dl : now < dl -> now + sock_timeout now dl = dl.
Proof. intros H. unfold sock_timeout. destruct (Z.ltb_spec 0 (dl - now)); lia. Qed.

(* nothing is due: the time-out fires at the deadline and the queue is untouched *)
Lemma await_all_late vr want now dl evs : now < dl -> Forall (fun e => dl <= etime e) evs ->
  await0 vr want now dl evs = (OTimeout, dl, evs, [TTimeout dl]).
Proof.
  intros Hn H. destruct evs as [|[t a d] r]; cbn [await0]; rewrite lim_eq by exact Hn; [reflexivity|].
  inversion H as [|? ? Ht _]; subst. cbn [etime] in Ht.
  destruct (Z.ltb_spec t dl); [lia|reflexivity].
Qed.

(* The run with the foreign datagrams has clock [now2], the run without them [now] <= [now2];
   [now2] is ahead only because of a delivered foreign datagram, which is not later than
   anything still queued: so the next delivery brings both clocks to the same value. *)
Definition clocks_meet (now now2 : Z) (evs : list event) : Prop :=
  Forall (fun e => Z.max now2 (etime e) = Z.max now (etime e)) evs.

Lemma await_tid vr want dl : forall evs now now2 o n e l,
  sorted evs -> now <= now2 -> now2 < dl -> clocks_meet now now2 evs ->
  await0 vr want now2 dl evs = (o, n, e, l) ->
  await0 vr want now dl (client_only evs) = (o, n, client_only e, strip_foreign l) /\
  sorted e /\ foreign_answered l = true.
Proof.
  induction evs as [|[t a d] r IH]; intros now now2 o n e l Hs Hle Hlt Hm H.
  - cbn [await0 client_only filter] in *. rewrite lim_eq in * by lia.
    injection H as <- <- <- <-. repeat split.
  - destruct Hs as [Hh Hr]. inversion Hm as [|? ? Hm1 Hm2]; subst. cbn [etime] in Hm1.
    cbn [await0] in H. rewrite lim_eq in H by lia.
    cbn [client_only filter from_client].
    destruct (Z.ltb_spec t dl) as [Hdue|Hlate].
    + (* delivered *)
      destruct (a =? client)%N eqn:Ea; cbn [negb] in H.
      * (* from the peer *)
        cbn [await0]. rewrite lim_eq by lia. destruct (Z.ltb_spec t dl); [|lia]. rewrite Ea. cbn [negb].
        destruct (classify vr d) as [k| | |].
        -- destruct (k =? want)%N.
           ++ injection H as <- <- <- <-. rewrite Hm1. cbn [strip_foreign filter concerns_client]. rewrite Ea.
              repeat split; [exact Hr|]. unfold foreign_answered in *. cbn [answered_from]. now rewrite Ea.
           ++ destruct (await0 vr want (Z.max now2 t) dl r) as [[[o2 n2] e2] l2] eqn:E2.
              injection H as <- <- <- <-. rewrite Hm1 in E2.
              assert (Hm' : clocks_meet (Z.max now t) (Z.max now t) r) by (apply Forall_forall; reflexivity).
              destruct (IH (Z.max now t) (Z.max now t) _ _ _ _ Hr (Z.le_refl _) ltac:(lia) Hm' E2) as [A [B C]].
              fold (client_only r). rewrite A. cbn [strip_foreign filter concerns_client]. rewrite Ea.
              repeat split; [exact B|]. unfold foreign_answered in *. cbn [answered_from]. now rewrite Ea.
        -- injection H as <- <- <- <-. rewrite Hm1. cbn [strip_foreign filter concerns_client]. rewrite Ea.
           repeat split; [exact Hr|]. unfold foreign_answered in *. cbn [answered_from]. now rewrite Ea.
        -- injection H as <- <- <- <-. rewrite Hm1. cbn [strip_foreign filter concerns_client]. rewrite Ea.
           repeat split; [exact Hr|]. unfold foreign_answered in *. cbn [answered_from]. now rewrite Ea.
        -- injection H as <- <- <- <-. rewrite Hm1. cbn [strip_foreign filter concerns_client]. rewrite Ea.
           repeat split; [exact Hr|]. unfold foreign_answered in *. cbn [answered_from]. now rewrite Ea.
      * (* from a foreign address: only the clock of this run moves *)
        destruct (await0 vr want (Z.max now2 t) dl r) as [[[o2 n2] e2] l2] eqn:E2.
        injection H as <- <- <- <-.
        assert (Hm' : clocks_meet now (Z.max now2 t) r).
        { apply Forall_forall. intros x Hx.
          pose proof (proj1 (Forall_forall _ _) Hh x Hx) as H1. cbn [etime] in H1.
          pose proof (proj1 (Forall_forall _ _) Hm2 x Hx) as H2. cbn beta in H2. lia. }
        destruct (IH now (Z.max now2 t) _ _ _ _ Hr ltac:(lia) ltac:(lia) Hm' E2) as [A [B C]].
        fold (client_only r). rewrite A. cbn [strip_foreign filter concerns_client]. rewrite Ea.
        repeat split; [exact B|]. unfold foreign_answered in *. cbn [answered_from]. rewrite Ea, !N.eqb_refl, C.
        destruct (Z.leb_spec t (Z.max now2 t)); [reflexivity|lia].
    + (* not yet due: the time-out fires in both runs, whoever is at the head of the queue *)
      injection H as <- <- <- <-.
      assert (Hall : Forall (fun e => dl <= etime e) (Recv t a d :: r)).
      { constructor; [cbn; lia|]. eapply Forall_impl; [|exact Hh]. cbn. intros x Hx. lia. }
      split; [|split; [split; assumption|reflexivity]].
      fold (client_only (Recv t a d :: r)).
      apply await_all_late; [lia|]. apply Forall_filter. exact Hall.
Qed.

(* ---------- one packet with its retries ---------- *)
Section Tries.
  Variable c : cfg.
  Hypothesis tm_pos : 0 < tmo c.
  Hypothesis pr_zero : proc c = 0.

  Lemma send_tries_tid p want : forall tries now evs o n e l,
    sorted evs ->
    send_tries c tries p want now evs = (o, n, e, l) ->
    send_tries c tries p want now (client_only evs) = (o, n, client_only e, strip_foreign l) /\
    sorted e /\ foreign_answered l = true.
  Proof.
    induction tries as [|k IH]; intros now evs o n e l Hs H.
    - cbn [send_tries] in *. injection H as <- <- <- <-. repeat split. exact Hs.
    - rewrite send_tries_S in *.
      assert (Hlt : now < now + tmo c) by lia.
      rewrite !(await_await0 c want _ pr_zero) in * by exact Hlt.
      destruct (await0 (v c) want now (now + tmo c) evs) as [[[o1 n1] e1] l1] eqn:E1.
      assert (Hm : clocks_meet now now evs) by (apply Forall_forall; reflexivity).
      destruct (await_tid _ _ _ _ _ _ _ _ _ _ Hs (Z.le_refl _) Hlt Hm E1) as [A [B C]].
      rewrite A.
      assert (Hsend : forall l', strip_foreign (TSend now client p :: l') = TSend now client p :: strip_foreign l')
        by reflexivity.
      assert (Hans : forall l', foreign_answered l' = true -> foreign_answered (TSend now client p :: l') = true)
        by (intros l' Hl'; unfold foreign_answered in *; cbn [answered_from]; exact Hl').
      destruct o1; try (injection H as <- <- <- <-; rewrite Hsend; repeat split; auto).
      destruct k as [|k'].
      + destruct (retry_fallthrough (v c)); injection H as <- <- <- <-; rewrite Hsend; repeat split; auto.
      + destruct (send_tries c (S k') p want n1 e1) as [[[o2 n2] e2] l2] eqn:E2.
        injection H as <- <- <- <-.
        destruct (IH _ _ _ _ _ _ B E2) as [A2 [B2 C2]]. rewrite A2.
        rewrite Hsend, strip_app. repeat split; auto. apply Hans. apply answered_app; auto.
  Qed.

  (* ---------- the block loop ---------- *)
  Lemma send_blocks_tid : forall blocks blk now evs r n e l,
    sorted evs ->
    send_blocks c blk blocks now evs = (r, n, e, l) ->
    send_blocks c blk blocks now (client_only evs) = (r, n, client_only e, strip_foreign l) /\
    sorted e /\ foreign_answered l = true.
  Proof.
    induction blocks as [|b rest IH]; intros blk now evs r n e l Hs H; cbn [send_blocks] in *.
    - injection H as <- <- <- <-. repeat split. exact Hs.
    - destruct (next_block (wrap c) blk) as [nb|].
      2:{ injection H as <- <- <- <-. repeat split. exact Hs. }
      destruct (send_tries c (S (retries c)) (PData nb b) nb now evs) as [[[o1 n1] e1] l1] eqn:E1.
      destruct (send_tries_tid _ _ _ _ _ _ _ _ _ Hs E1) as [A [B C]]. rewrite A.
      destruct o1; try (injection H as <- <- <- <-; repeat split; auto).
      destruct (send_blocks c nb rest n1 e1) as [[[r2 n2] e2] l2] eqn:E2.
      injection H as <- <- <- <-.
      destruct (IH _ _ _ _ _ _ _ B E2) as [A2 [B2 C2]]. rewrite A2, strip_app.
      repeat split; auto. apply answered_app; auto.
  Qed.

  Lemma strip_tail r now : strip_foreign (finish r now ++ [TCloseFile; TCloseSock]) = finish r now ++ [TCloseFile; TCloseSock].
  Proof. destruct r as [[]|[]]; reflexivity. Qed.
  Lemma answered_tail r now : foreign_answered (finish r now ++ [TCloseFile; TCloseSock]) = true.
  Proof. destruct r as [[]|[]]; reflexivity. Qed.

  (* ---------- the whole transfer ---------- *)
  Theorem transfer_tid oack blocks evs : sorted evs ->
    fst (transfer_r c oack blocks (client_only evs)) = fst (transfer_r c oack blocks evs) /\
    snd (transfer_r c oack blocks (client_only evs)) = strip_foreign (snd (transfer_r c oack blocks evs)) /\
    foreign_answered (snd (transfer_r c oack blocks evs)) = true.
  Proof.
    intros Hs. unfold transfer_r. destruct oack as [|o1 oa].
    - destruct (send_blocks c 0%N blocks 0 evs) as [[[r n] e] l] eqn:E.
      destruct (send_blocks_tid _ _ _ _ _ _ _ _ Hs E) as [A [B C]]. rewrite A. cbn [fst snd].
      rewrite strip_app, strip_tail. repeat split. apply answered_app; [exact C|apply answered_tail].
    - destruct (send_tries c (S (retries c)) (POack (o1 :: oa)) 0%N 0 evs) as [[[o n1] e1] l1] eqn:E1.
      destruct (send_tries_tid _ _ _ _ _ _ _ _ _ Hs E1) as [A [B C]]. rewrite A.
      destruct o; try (cbn [fst snd]; rewrite strip_app, strip_tail; repeat split;
                       apply answered_app; [exact C|apply answered_tail]).
      destruct (send_blocks c 0%N blocks n1 e1) as [[[r n2] e2] l2] eqn:E2.
      destruct (send_blocks_tid _ _ _ _ _ _ _ _ B E2) as [A2 [B2 C2]]. rewrite A2. cbn [fst snd].
      rewrite (strip_app (l1 ++ l2)), (strip_app l1), strip_tail, <- List.app_assoc. repeat split.
      apply answered_app; [apply answered_app; assumption|apply answered_tail].
  Qed.
End Tries.

(* ================= terminal reactions: peer ERROR, invalid packet, internal error ================= *)
Lemma outcome_eqb_eq a b : outcome_eqb a b = true <-> a = b.
Proof. destruct a, b; cbn; split; intros H; try discriminate; reflexivity. Qed.

Section Terminal.
  Variable vr : variants.
  Variable ok : outcome.
  Hypothesis ok_not_acked : ok <> OAcked.
  Hypothesis ok_not_timeout : ok <> OTimeout.
  Variable c : cfg.
  Hypothesis v_vr : v c = vr.
  Hypothesis pr_nonneg : 0 <= proc c.

  Definition hit (x : tr) : bool := recv_causing vr ok x.
  Definition clear (l : list tr) : Prop := Forall (fun x => hit x = false) l.
  Definition no_logexc (l : list tr) : Prop := Forall (fun x => x <> TLogExc) l.

  (* a part of the machine either did not see such a datagram at all, or it ended with outcome
     [ok] directly at the first one, at clock value n >= its time stamp *)
  Definition part_ok (o : outcome) (n : Z) (l : list tr) : Prop :=
    no_logexc l /\
    ((o = ok -> exists l0 t d, l = l0 ++ [TRecv t client d] /\ hit (TRecv t client d) = true /\ clear l0 /\ t <= n) /\
     (o <> ok -> clear l)).

  Lemma hit_send t a p : hit (TSend t a p) = false. Proof. reflexivity. Qed.

  Lemma await_terminal want dl : forall evs now o n e l,
    await c want now dl evs = (o, n, e, l) -> part_ok o n l.
  Proof.
    assert (TO : forall o n e l t (q : list event), (OTimeout, t, q, [TTimeout t]) = (o, n, e, l) -> part_ok o n l).
    { intros o n e l t q H. injection H as <- <- <- <-. split; [repeat constructor; discriminate|].
      split; [intros E; congruence|]. intros _. repeat constructor. }
    induction evs as [|[t a d] r IH]; intros now o n e l H; cbn [await] in H; rewrite v_vr in H;
      destruct (negb (late_recv vr) && (dl <=? now)); try (eapply TO; exact H).
    destruct (t <? now + sock_timeout now dl); [|eapply TO; exact H].
    destruct (a =? client)%N eqn:Ea; cbn [negb] in H.
    + assert (Hterm : forall cl, classify vr d = cl -> out_of cl <> OAcked ->
                (out_of cl, Z.max now t + proc c, r, [TRecv t a d]) = (o, n, e, l) -> part_ok o n l).
      { intros cl Hc Hna HH. injection HH as <- <- <- <-. apply N.eqb_eq in Ea. subst a.
        split; [repeat constructor; discriminate|]. split.
        - intros E. exists [], t, d. repeat split; [|constructor|lia].
          cbn [hit recv_causing]. rewrite N.eqb_refl, Hc. cbn [andb]. now apply outcome_eqb_eq.
        - intros E. repeat constructor. cbn [hit recv_causing]. rewrite N.eqb_refl, Hc. cbn [andb].
          destruct (outcome_eqb (out_of cl) ok) eqn:E2; [|reflexivity]. apply outcome_eqb_eq in E2. contradiction. }
      assert (Hack : forall k, classify vr d = CAck k -> hit (TRecv t a d) = false).
      { intros k Hc. cbn [hit recv_causing]. rewrite Hc. cbn [out_of].
        destruct (outcome_eqb OAcked ok) eqn:E2; [|now rewrite andb_false_r].
        apply outcome_eqb_eq in E2. congruence. }
      destruct (classify vr d) as [k| | |] eqn:Ec.
      * destruct (k =? want)%N.
        -- injection H as <- <- <- <-. split; [repeat constructor; discriminate|]. split; [intros E; congruence|].
           intros _. repeat constructor. eapply Hack; reflexivity.
        -- destruct (await c want (Z.max now t + proc c) dl r) as [[[o2 n2] e2] l2] eqn:E2.
           injection H as <- <- <- <-. destruct (IH _ _ _ _ _ E2) as [L [A B]].
           split; [constructor; [discriminate|exact L]|]. split.
           ++ intros E. destruct (A E) as [l0 [t0 [d0 [-> [H1 [H2 H3]]]]]].
              exists (TRecv t a d :: l0), t0, d0. repeat split; auto. constructor; [eapply Hack; reflexivity|exact H2].
           ++ intros E. constructor; [eapply Hack; reflexivity|apply B; exact E].
      * apply (Hterm CPeerError eq_refl); [discriminate|exact H].
      * apply (Hterm CInvalid eq_refl); [discriminate|exact H].
      * apply (Hterm CInternal eq_refl); [discriminate|exact H].
    + destruct (await c want (Z.max now t + proc c) dl r) as [[[o2 n2] e2] l2] eqn:E2.
      injection H as <- <- <- <-. destruct (IH _ _ _ _ _ E2) as [L [A B]].
      assert (Hf : hit (TRecv t a d) = false) by (cbn [hit recv_causing]; now rewrite Ea).
      split; [constructor; [discriminate|constructor; [discriminate|exact L]]|]. split.
      * intros E. destruct (A E) as [l0 [t0 [d0 [-> [H1 [H2 H3]]]]]].
        exists (TRecv t a d :: TSend (Z.max now t + proc c) a (PError 5) :: l0), t0, d0.
        repeat split; auto. constructor; [exact Hf|constructor; [reflexivity|exact H2]].
      * intros E. constructor; [exact Hf|constructor; [reflexivity|apply B; exact E]].
  Qed.

  Lemma part_ok_send o n l t p : part_ok o n l -> part_ok o n (TSend t client p :: l).
  Proof.
    intros [L [A B]]. split; [constructor; [discriminate|exact L]|]. split.
    - intros E. destruct (A E) as [l0 [t0 [d0 [-> [H1 [H2 H3]]]]]].
      exists (TSend t client p :: l0), t0, d0. repeat split; auto. constructor; [reflexivity|exact H2].
    - intros E. constructor; [reflexivity|apply B; exact E].
  Qed.

  Lemma clear_app a b : clear a -> clear b -> clear (a ++ b).
  Proof. intros; apply Forall_app; split; assumption. Qed.

  (* a clear part followed by a part *)
  Lemma part_ok_app o n l1 l2 : clear l1 -> no_logexc l1 -> part_ok o n l2 -> part_ok o n (l1 ++ l2).
  Proof.
    intros C1 L1 [L [A B]]. split; [apply Forall_app; split; assumption|]. split.
    - intros E. destruct (A E) as [l0 [t0 [d0 [-> [H1 [H2 H3]]]]]].
      exists (l1 ++ l0), t0, d0. rewrite List.app_assoc. repeat split; auto. apply clear_app; assumption.
    - intros E. apply clear_app; auto.
  Qed.

  Lemma send_tries_terminal p want : forall tries now evs o n e l,
    send_tries c tries p want now evs = (o, n, e, l) -> part_ok o n l.
  Proof.
    induction tries as [|k IH]; intros now evs o n e l H.
    - cbn [send_tries] in H. injection H as <- <- <- <-. split; [constructor|]. split; [congruence|constructor].
    - rewrite send_tries_S in H.
      destruct (await c want now (now + tmo c) evs) as [[[o1 n1] e1] l1] eqn:E1.
      try rewrite v_vr in H.
      pose proof (await_terminal _ _ _ _ _ _ _ _ E1) as P1.
      destruct o1; try (injection H as <- <- <- <-; apply part_ok_send; exact P1).
      destruct P1 as [L1 [_ B1]]. specialize (B1 (fun E => ok_not_timeout (eq_sym E))).
      destruct k as [|k'].
      + destruct (retry_fallthrough vr); injection H as <- <- <- <-;
          (split; [constructor; [discriminate|exact L1]|]); (split; [congruence|]);
          intros _; (constructor; [reflexivity|exact B1]).
      + destruct (send_tries c (S k') p want n1 e1) as [[[o2 n2] e2] l2] eqn:E2.
        injection H as <- <- <- <-. apply part_ok_send. apply part_ok_app; auto. eapply IH; exact E2.
  Qed.

  Definition part_ok_r (r : outcome + ending) (n : Z) (l : list tr) : Prop :=
    no_logexc l /\
    ((r = inl ok -> exists l0 t d, l = l0 ++ [TRecv t client d] /\ hit (TRecv t client d) = true /\ clear l0 /\ t <= n) /\
     (r <> inl ok -> clear l)).

  Lemma send_blocks_terminal : forall blocks blk now evs r n e l,
    send_blocks c blk blocks now evs = (r, n, e, l) -> part_ok_r r n l.
  Proof.
    induction blocks as [|b rest IH]; intros blk now evs r n e l H; cbn [send_blocks] in H.
    - injection H as <- <- <- <-. split; [constructor|]. split; [discriminate|constructor].
    - destruct (next_block (wrap c) blk) as [nb|].
      2:{ injection H as <- <- <- <-. split; [constructor|]. split; [discriminate|constructor]. }
      destruct (send_tries c (S (retries c)) (PData nb b) nb now evs) as [[[o1 n1] e1] l1] eqn:E1.
      pose proof (send_tries_terminal _ _ _ _ _ _ _ _ _ E1) as [L1 [A1 B1]].
      assert (Hstop : forall oo, oo = o1 -> oo <> OAcked -> (inl oo, n1, e1, l1) = (r, n, e, l) -> part_ok_r r n l).
      { intros oo -> Hna HH. injection HH as <- <- <- <-. split; [exact L1|]. split.
        - intros E. injection E as E. exact (A1 E).
        - intros E. apply B1. intros E'. apply E. now rewrite E'. }
      destruct o1; try (apply (Hstop _ eq_refl); [discriminate|exact H]).
      destruct (send_blocks c nb rest n1 e1) as [[[r2 n2] e2] l2] eqn:E2.
      injection H as <- <- <- <-. destruct (IH _ _ _ _ _ _ _ E2) as [L2 [A2 B2]].
      specialize (B1 (fun E => ok_not_acked (eq_sym E))).
      split; [apply Forall_app; split; assumption|]. split.
      + intros E. destruct (A2 E) as [l0 [t0 [d0 [-> [H1 [H2 H3]]]]]].
        exists (l1 ++ l0), t0, d0. rewrite List.app_assoc. repeat split; auto. apply clear_app; assumption.
      + intros E. apply clear_app; auto.
  Qed.

  (* the trace of the machine before the except-ladder *)
  Lemma transfer_body_terminal oack blocks evs :
    exists r n l, transfer_r c oack blocks evs = (r, l ++ finish r n ++ [TCloseFile; TCloseSock]) /\ part_ok_r r n l.
  Proof.
    unfold transfer_r. destruct oack as [|o1 oa].
    - destruct (send_blocks c 0%N blocks 0 evs) as [[[r n] e] l] eqn:E.
      exists r, n, l. split; [reflexivity|]. eapply send_blocks_terminal; exact E.
    - destruct (send_tries c (S (retries c)) (POack (o1 :: oa)) 0%N 0 evs) as [[[o n1] e1] l1] eqn:E1.
      pose proof (send_tries_terminal _ _ _ _ _ _ _ _ _ E1) as [L1 [A1 B1]].
      assert (Hstop : forall oo, oo = o -> oo <> OAcked -> part_ok_r (inl oo) n1 l1).
      { intros oo -> Hna. split; [exact L1|]. split.
        - intros E. injection E as E. exact (A1 E).
        - intros E. apply B1. intros E'. apply E. now rewrite E'. }
      destruct o; try (eexists _, n1, l1; split; [reflexivity|apply (Hstop _ eq_refl); discriminate]).
      destruct (send_blocks c 0%N blocks n1 e1) as [[[r n2] e2] l2] eqn:E2.
      exists r, n2, (l1 ++ l2). split; [reflexivity|].
      destruct (send_blocks_terminal _ _ _ _ _ _ _ _ E2) as [L2 [A2 B2]].
      specialize (B1 (fun E => ok_not_acked (eq_sym E))).
      split; [apply Forall_app; split; assumption|]. split.
      + intros E. destruct (A2 E) as [l0 [t0 [d0 [-> [H1 [H2 H3]]]]]].
        exists (l1 ++ l0), t0, d0. rewrite List.app_assoc. repeat split; auto. apply clear_app; assumption.
      + intros E. apply clear_app; auto.
  Qed.

  (* where a hit can be in  l0 ++ [R] ++ tail  when l0 and tail are clear *)
  Lemma unique_hit l0 x tail pre y post :
    clear l0 -> clear tail -> hit y = true -> l0 ++ x :: tail = pre ++ y :: post -> pre = l0 /\ y = x /\ post = tail.
  Proof.
    intros C0 Ct Hy. revert pre. induction l0 as [|z l0 IH]; intros pre E.
    - destruct pre as [|p pre]; cbn [app] in E.
      + injection E as <- <-. auto.
      + injection E as <- E. exfalso. assert (In y tail) by (rewrite E; apply in_or_app; right; left; reflexivity).
        pose proof (proj1 (Forall_forall _ _) Ct y H). cbn beta in *. congruence.
    - inversion C0 as [|? ? Hz C0']; subst. destruct pre as [|p pre]; cbn [app] in E.
      + injection E as <- _. congruence.
      + injection E as <- E. destruct (IH C0' pre E) as [-> [-> ->]]. auto.
  Qed.
End Terminal.

(* ================= the readings for the current code ================= *)
Lemma classify_current_not_internal d : classify current d <> CInternal.
Proof.
  unfold classify. cbn [current errcode_raises andb].
  repeat match goal with |- context [match ?x with _ => _ end] => destruct x; try discriminate end.
Qed.

Lemma error_datagram_class d : is_error_datagram d = true -> classify current d = CPeerError.
Proof.
  unfold is_error_datagram, classify. destruct d as [|hi [|lo r]]; try discriminate.
  intros H. apply N.eqb_eq in H. rewrite H. cbn [N.eqb Pos.eqb current errcode_raises andb].
  destruct r as [|c1 [|c2 r]]; reflexivity.
Qed.

Lemma tail_clear vr ok r n : r <> inl ok -> clear vr ok (finish r n ++ [TCloseFile; TCloseSock]).
Proof. intros _. destruct r as [[]|[]]; repeat constructor. Qed.

Section Current.
  Variable c : cfg.
  Hypothesis v_cur : v c = current.
  Hypothesis pr_nonneg : 0 <= proc c.

  (* any ERROR packet from the peer (any code, any length >= 2) ends the transfer silently:
     after its reception nothing is sent; file and socket are released *)
  Theorem peer_error_silent oack blocks evs pre t d post :
    transfer c oack blocks evs = pre ++ TRecv t client d :: post ->
    is_error_datagram d = true ->
    post = [TCloseFile; TCloseSock].
  Proof.
    intros E Hd. unfold transfer in E.
    assert (Hy : hit current OPeerError (TRecv t client d) = true).
    { cbn [hit recv_causing]. now rewrite (error_datagram_class d Hd). }
    destruct (transfer_body_terminal current OPeerError ltac:(discriminate) ltac:(discriminate) c v_cur pr_nonneg oack blocks evs)
      as [r [n [l [Er [L [A B]]]]]].
    rewrite Er in E. cbn [snd] in E.
    assert (Hdec : r = inl OPeerError \/ r <> inl OPeerError)
      by (destruct r as [[]|[]]; try (right; discriminate); left; reflexivity).
    destruct Hdec as [->|Hne].
    - destruct (A eq_refl) as [l0 [t0 [d0 [-> [H1 [H2 H3]]]]]]. cbn [finish app] in E.
      rewrite <- List.app_assoc in E. cbn [app] in E.
      destruct (unique_hit current OPeerError l0 _ [TCloseFile; TCloseSock] pre _ post H2 ltac:(repeat constructor) Hy E)
        as [_ [_ ->]]. reflexivity.
    - exfalso. assert (Hc : clear current OPeerError (l ++ finish r n ++ [TCloseFile; TCloseSock])).
      { apply clear_app; [apply B; exact Hne|apply tail_clear; exact Hne]. }
      rewrite E in Hc. apply Forall_app in Hc as [_ Hc]. inversion Hc; subst. congruence.
  Qed.

  (* a datagram from the peer that is neither an ACK nor an ERROR (too short, unknown or
     unexpected opcode, ACK of a wrong length) is answered with exactly one ERROR 0, not before
     its arrival, and the transfer ends *)
  Theorem invalid_packet_one_error oack blocks evs pre t d post :
    transfer c oack blocks evs = pre ++ TRecv t client d :: post ->
    classify current d = CInvalid ->
    exists now, t <= now /\ post = [TSend now client (PError 0); TCloseFile; TCloseSock].
  Proof.
    intros E Hd. unfold transfer in E.
    assert (Hy : hit current OInvalid (TRecv t client d) = true).
    { cbn [hit recv_causing]. now rewrite Hd. }
    destruct (transfer_body_terminal current OInvalid ltac:(discriminate) ltac:(discriminate) c v_cur pr_nonneg oack blocks evs)
      as [r [n [l [Er [L [A B]]]]]].
    rewrite Er in E. cbn [snd] in E.
    assert (Hdec : r = inl OInvalid \/ r <> inl OInvalid)
      by (destruct r as [[]|[]]; try (right; discriminate); left; reflexivity).
    destruct Hdec as [->|Hne].
    - destruct (A eq_refl) as [l0 [t0 [d0 [-> [H1 [H2 H3]]]]]]. cbn [finish app] in E.
      rewrite <- List.app_assoc in E. cbn [app] in E.
      destruct (unique_hit current OInvalid l0 _ [TSend n client (PError 0); TCloseFile; TCloseSock] pre _ post H2
                  ltac:(repeat constructor) Hy E) as [_ [Ey ->]].
      injection Ey as -> _. exists n. split; [exact H3|reflexivity].
    - exfalso. assert (Hc : clear current OInvalid (l ++ finish r n ++ [TCloseFile; TCloseSock])).
      { apply clear_app; [apply B; exact Hne|apply tail_clear; exact Hne]. }
      rewrite E in Hc. apply Forall_app in Hc as [_ Hc]. inversion Hc; subst. congruence.
  Qed.

  (* the catch-all `except Exception` branch is never taken, whatever arrives *)
  Theorem transfer_no_logexc oack blocks evs : ~ In TLogExc (transfer c oack blocks evs).
  Proof.
    unfold transfer.
    destruct (transfer_body_terminal current OInternal ltac:(discriminate) ltac:(discriminate) c v_cur pr_nonneg oack blocks evs)
      as [r [n [l [Er [L [A B]]]]]].
    rewrite Er. cbn [snd]. intros HIn.
    assert (Hr : r <> inl OInternal).
    { intros ->. destruct (A eq_refl) as [l0 [t0 [d0 [_ [H1 _]]]]].
      cbn [hit recv_causing] in H1. apply andb_true_iff in H1 as [_ H1]. apply outcome_eqb_eq in H1.
      destruct (classify current d0) eqn:Ec; try discriminate. exact (classify_current_not_internal d0 Ec). }
    apply in_app_or in HIn as [HIn|HIn].
    - pose proof (proj1 (Forall_forall _ _) L _ HIn). congruence.
    - destruct r as [[]|[]]; cbn in HIn; try congruence; intuition discriminate.
  Qed.
End Current.

(* ================= unsorted scripts ================= *)
(* A script that hands a foreign datagram stamped 100 to the socket BEFORE a peer datagram
   stamped 50 (no queue does that) moves the clock: block 2 goes out at 100 instead of 50. *)
Definition unsorted_cfg : cfg := {| tmo := 2048; retries := 1; wrap := Some 0%N; proc := 0; v := current |}.
Definition unsorted_script : list event :=
  [Recv 100 1%N [0; 4; 0; 1]%N; Recv 50 client [0; 4; 0; 1]%N; Recv 60 client [0; 4; 0; 2]%N].
Lemma tid_unsorted_refuted :
  ~ nondecreasing unsorted_script /\
  snd (transfer_r unsorted_cfg [] [[1%N]; [2%N]] (client_only unsorted_script))
  <> strip_foreign (snd (transfer_r unsorted_cfg [] [[1%N]; [2%N]] unsorted_script)).
Proof. split; [cbn; lia|vm_compute; discriminate]. Qed.
