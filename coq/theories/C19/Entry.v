(* C19: cases, observations, run_model, the executable checker [holds] (built on the `search`
   decision procedure `linearizable`), and the sx entry point.

   A case names the component, its parameters, the calls of every thread, and the schedule: the sequence
   of micro-steps (lock acquire, accesses, release) and environment events (file edits) in the order in
   which the REAL run performed them; the observation is the list of results per thread. *)
From Coq Require Import String.
From Coq Require Import List NArith ZArith Bool Arith.
From VF Require Import Base.Sx Conc.Machine Conc.MachineProofs Conc.Lin Conc.RealTime Conc.Instances.
Import ListNotations.
Local Open Scope nat_scope.

(* stamps: for every thread and every call the real-time predecessors (thread, index of its last call that
   had returned when this call was invoked) *)
Definition stamps := list (list (list (nat * nat))).
Inductive case :=
  | Cache (capacity : nat) (calls : list (list ccall)) (st : stamps) (sch : list (choice unit))
  | Text (contents : list (list (nat * nat))) (badl : list bool) (cache_enabled : bool)
         (calls : list (list tcall)) (st : stamps) (sch : list (choice nat))
  | Store (calls : list (list scall)) (st : stamps) (sch : list (choice unit))
  | Yaml (table : list (list ydata)) (tree : list nat) (w0 : list nat) (ncalls : list nat) (st : stamps)
         (sch : list (choice nat)) (post : bool).
Definition obs := list (list R).

(* ---------- the four machines ---------- *)
Definition c_begin (c : ccall) : ccall * R := (c, []).
Definition c_ret (l : ccall * R) : R := snd l.
Definition c_env (_ : unit) (w : unit) : unit := w.
Definition c_init (capacity : nat) calls :=
  init lru unit (ccall * R) ccall R (CLen, []) {| cap := capacity; items := [] |} tt calls.
Definition c_run locked := run lru unit (ccall * R) ccall R unit c_begin (cache_prog locked) c_ret c_env.

Definition t_begin (c : tcall) : tls := {| tc := c; statv := None; tres := [] |}.
(* worlds are file identities; an environment event switches the path to file state e (possibly an earlier one) *)
Definition t_env (e : nat) (_ : nat) : nat := e.
Definition t_contents (l : list (list (nat * nat))) (w : nat) := nth w l [].
Definition t_bad (l : list bool) (w : nat) := nth w l false.
Definition t_init calls := init tobj nat tls tcall R (t_begin (TGet 0)) {| fver := None; parsed := [] |} 0 calls.
Definition t_prog contents badl ce locked := text_prog (t_contents contents) (t_bad badl) ce locked.
Definition t_run contents badl ce locked :=
  run tobj nat tls tcall R nat t_begin (t_prog contents badl ce locked) tres t_env.

Definition s_begin (c : scall) : scall * R := (c, []).
Definition s_ret (l : scall * R) : R := snd l.
Definition s_init calls := init store unit (scall * R) scall R (SGetData 0, []) [] tt calls.
Definition s_run := run store unit (scall * R) scall R unit s_begin store_prog s_ret c_env.

Definition y_table (t : list (list ydata)) (f v : nat) : ydata := nth v (nth f t []) [].
Definition y_init w0 (ncalls : list nat) :=
  init (option yitem) (list nat) yls unit R (yls_begin tt) None w0 (map (fun n => repeat tt n) ncalls).
Definition y_run table tree once :=
  run (option yitem) (list nat) yls unit R nat yls_begin (yaml_prog (y_table table) tree once) (yret (y_table table)) bump.

(* ---------- the instrumented (real-time) machines ---------- *)
Fixpoint zip_stamps {A} (i : nat) (cs : list A) (ps : list (list (nat * nat))) : list (rcall A) :=
  match cs with
  | [] => []
  | c :: r => (c, (i, match ps with p :: _ => p | [] => [] end)) :: zip_stamps i r (tl ps)
  end.
Fixpoint rcalls_from {A} (i : nat) (calls : list (list A)) (st : stamps) : list (list (rcall A)) :=
  match calls with
  | [] => []
  | cs :: r => zip_stamps i cs (match st with p :: _ => p | [] => [] end) :: rcalls_from (S i) r (tl st)
  end.
Definition rcalls {A} (calls : list (list A)) (st : stamps) := rcalls_from 0 calls st.
Definition POISON : R := [99].

Definition cr_init capacity calls st :=
  init (robj lru) unit (rls (ccall * R)) (rcall ccall) (option R) (rbegin _ _ c_begin (CLen, (0, [])))
       ({| cap := capacity; items := [] |}, repeat 0 (length calls)) tt (rcalls calls st).
Definition cr_run := run (robj lru) unit (rls (ccall * R)) (rcall ccall) (option R) unit
                         (rbegin _ _ c_begin) (rprog _ _ _ _ cache_body) (rret _ _ c_ret) c_env.
Definition tr_init calls st :=
  init (robj tobj) nat (rls tls) (rcall tcall) (option R) (rbegin _ _ t_begin (TGet 0, (0, [])))
       ({| fver := None; parsed := [] |}, repeat 0 (length calls)) 0 (rcalls calls st).
Definition tr_run contents badl ce :=
  run (robj tobj) nat (rls tls) (rcall tcall) (option R) nat
      (rbegin _ _ t_begin) (rprog _ _ _ _ (text_body (t_contents contents) (t_bad badl) ce)) (rret _ _ tres) t_env.
Definition sr_init calls st :=
  init (robj store) unit (rls (scall * R)) (rcall scall) (option R) (rbegin _ _ s_begin (SGetData 0, (0, [])))
       ([], repeat 0 (length calls)) tt (rcalls calls st).
Definition sr_run := run (robj store) unit (rls (scall * R)) (rcall scall) (option R) unit
                         (rbegin _ _ s_begin) (rprog _ _ _ _ store_body) (rret _ _ s_ret) c_env.
Definition plain (l : list (list (option R))) : obs := map (map (unwrap POISON)) l.

Definition run_model (c : case) : obs :=
  match c with
  | Cache capacity calls st sch => plain (results _ _ _ _ _ (cr_run (cr_init capacity calls st) sch))
  | Text contents badl ce calls st sch => plain (results _ _ _ _ _ (tr_run contents badl ce (tr_init calls st) sch))
  | Store calls st sch => plain (results _ _ _ _ _ (sr_run (sr_init calls st) sch))
  | Yaml table tree w0 ncalls st sch post => results _ _ _ _ _ (y_run table tree true (y_init w0 ncalls) sch)
  end.

(* ---------- linearizable ---------- *)
Definition envs_of {E} (sch : list (choice E)) : list E :=
  flat_map (fun ch => match ch with Ev e => [e] | T _ => [] end) sch.
Definition fuel_for {E A} (sch : list (choice E)) (calls : list (list A)) : nat :=
  S (length sch + length sch + 8 * length (concat calls)).

Definition c_search capacity calls (sch : list (choice unit)) (o : obs) : bool :=
  search lru unit (ccall * R) ccall R unit c_begin (cache_prog true) c_ret c_env r_eqb
         (fuel_for sch calls) (c_init capacity calls) (envs_of sch) o.
Definition t_search contents badl ce calls (sch : list (choice nat)) (o : obs) : bool :=
  search tobj nat tls tcall R nat t_begin (t_prog contents badl ce true) tres t_env r_eqb
         (fuel_for sch calls) (t_init calls) (envs_of sch) o.
Definition s_search calls (sch : list (choice unit)) (o : obs) : bool :=
  search store unit (scall * R) scall R unit s_begin store_prog s_ret c_env r_eqb
         (fuel_for sch calls) (s_init calls) (envs_of sch) o.

(* the same search over the instrumented machines: linearizable AND real-time order respected *)
Definition wrap_obs (o : obs) : list (list (option R)) := map (map (@Some R)) o.
Definition cr_search capacity calls st (sch : list (choice unit)) (o : obs) : bool :=
  search (robj lru) unit (rls (ccall * R)) (rcall ccall) (option R) unit (rbegin _ _ c_begin)
         (rprog _ _ _ _ cache_body) (rret _ _ c_ret) c_env (opt_eqb r_eqb)
         (fuel_for sch calls) (cr_init capacity calls st) (envs_of sch) (wrap_obs o).
Definition tr_search contents badl ce calls st (sch : list (choice nat)) (o : obs) : bool :=
  search (robj tobj) nat (rls tls) (rcall tcall) (option R) nat (rbegin _ _ t_begin)
         (rprog _ _ _ _ (text_body (t_contents contents) (t_bad badl) ce)) (rret _ _ tres) t_env (opt_eqb r_eqb)
         (fuel_for sch calls) (tr_init calls st) (envs_of sch) (wrap_obs o).
Definition sr_search calls st (sch : list (choice unit)) (o : obs) : bool :=
  search (robj store) unit (rls (scall * R)) (rcall scall) (option R) unit (rbegin _ _ s_begin)
         (rprog _ _ _ _ store_body) (rret _ _ s_ret) c_env (opt_eqb r_eqb)
         (fuel_for sch calls) (sr_init calls st) (envs_of sch) (wrap_obs o).

(* YAML: get_data is a read-only function of the file states at specification level: every result must be
   get_data_spec of ONE of the file states present during the run, non-decreasing along each thread; the
   post thread (the last one) must see the final state *)
Fixpoint first_match (r : R) (specs : list R) : option (list R) :=
  match specs with
  | [] => None
  | s :: sp => if r_eqb r s then Some specs else first_match r sp
  end.
Fixpoint match_mono (rs : list R) (specs : list R) : bool :=
  match rs with
  | [] => true
  | r :: rs' => match first_match r specs with Some suffix => match_mono rs' suffix | None => false end
  end.
Definition y_specs table tree w0 (sch : list (choice nat)) : list R :=
  map (fun w => yans (y_table table) (snapshot_of tree w)) (worlds_of w0 (envs_of sch)).
(* clause 1 (proved for the model): every answer is get_data_spec of a file state present during the run *)
Definition y_member (specs : list R) (o : obs) : bool :=
  forallb (forallb (fun r => existsb (r_eqb r) specs)) o.
(* clause 2: along each thread the states answered for do not go back, and the post thread (the last
   one) sees the final state *)
(* real time across threads: a call invoked after another call had returned must not answer for an
   earlier state than that call did (earliest state matching the predecessor <= latest state matching it) *)
Fixpoint first_idx (r : R) (specs : list R) (i : nat) : option nat :=
  match specs with [] => None | s :: sp => if r_eqb r s then Some i else first_idx r sp (S i) end.
Fixpoint last_idx (r : R) (specs : list R) (i : nat) (acc : option nat) : option nat :=
  match specs with [] => acc | s :: sp => last_idx r sp (S i) (if r_eqb r s then Some i else acc) end.
Definition y_rt_call (specs : list R) (o : obs) (r : R) (ps : list (nat * nat)) : bool :=
  forallb (fun p => match first_idx (nth (snd p) (nth (fst p) o []) []) specs 0, last_idx r specs 0 None with
                    | Some a, Some b => Nat.leb a b
                    | _, _ => true
                    end) ps.
Fixpoint y_rt_thread (specs : list R) (o : obs) (rs : list R) (pss : list (list (nat * nat))) : bool :=
  match rs, pss with
  | r :: rs', ps :: pss' => y_rt_call specs o r ps && y_rt_thread specs o rs' pss'
  | _, _ => true
  end.
Fixpoint y_rt (specs : list R) (o : obs) (ts : obs) (st : stamps) : bool :=
  match ts, st with
  | rs :: ts', pss :: st' => y_rt_thread specs o rs pss && y_rt specs o ts' st'
  | _, _ => true
  end.
Definition y_order (specs : list R) (st : stamps) (post : bool) (o : obs) : bool :=
  y_rt specs o o st &&
  forallb (fun rs => match_mono rs specs) o &&
  (if post then match rev o with
                | last :: _ => forallb (fun r => r_eqb r (List.last specs [])) last
                | [] => true
                end
   else true).
Definition y_check table tree w0 (sch : list (choice nat)) (post : bool) (o : obs) : bool :=
  let specs := y_specs table tree w0 sch in y_member specs o && y_order specs [] post o.

Local Open Scope string_scope.
Definition is_exc (r : R) : bool := match r with 9 :: _ => true | _ => false end.
(* result code 10: the harness saw the shared resource used outside the component's critical section *)
Definition is_unguarded (r : R) : bool := match r with 10 :: _ => true | _ => false end.
(* result [9; 8]: the call never returned (the scheduler found no runnable thread: deadlock) *)
Definition is_stuck (r : R) : bool := match r with [9; 8] => true | _ => false end.
Definition blame (o : obs) : list string :=
  if existsb (existsb is_stuck) o then ["no_deadlock"] else
  if existsb (existsb is_unguarded) o then ["critical_section_discipline"]
  else if existsb (existsb is_exc) o then ["no_exception"] else ["linearizable"].
Definition shape_ok {A} (calls : list (list A)) (o : obs) : bool :=
  Nat.eqb (length calls) (length o).

Definition holds (c : case) (o : obs) : list string :=
  match c with
  | Cache capacity calls st sch =>
      if cr_search capacity calls st sch o then []
      else if c_search capacity calls sch o then ["real_time_order"] else blame o
  | Text contents badl ce calls st sch =>
      if tr_search contents badl ce calls st sch o then []
      else if t_search contents badl ce calls sch o then ["real_time_order"] else blame o
  | Store calls st sch =>
      if sr_search calls st sch o then []
      else if s_search calls sch o then ["real_time_order"] else blame o
  | Yaml table tree w0 ncalls st sch post =>
      let specs := y_specs table tree w0 sch in
      (if y_member specs o then [] else blame o) ++
      (if y_order specs st post o then [] else ["real_time_order_and_final_state"])
  end.

(* valid: the schedule runs every call to completion (it is the record of a complete run) and, replayed on
   the instrumented model, no call starts its critical section before a call that had really returned
   before its invocation has finished its own (no_none: the recorded invocation/response stamps bracket
   the critical sections; a decidable condition of the case).  YAML cases: at
   most one file change during the run (with more, even the fixed code can combine an old version of one
   file with a new version of another); clause 1 (`linearizable`) is then PROVED for the model; that the
   model also passes clause 2 (program order / final state) is a decidable side condition of the case,
   checked at run time for every generated case, not proved. *)
Definition valid (c : case) : Prop :=
  match c with
  | Cache capacity calls st sch =>
      all_done _ _ _ _ _ (cr_run (cr_init capacity calls st) sch) = true /\
      no_none (results _ _ _ _ _ (cr_run (cr_init capacity calls st) sch)) = true
  | Text contents badl ce calls st sch =>
      all_done _ _ _ _ _ (tr_run contents badl ce (tr_init calls st) sch) = true /\
      no_none (results _ _ _ _ _ (tr_run contents badl ce (tr_init calls st) sch)) = true
  | Store calls st sch =>
      all_done _ _ _ _ _ (sr_run (sr_init calls st) sch) = true /\
      no_none (results _ _ _ _ _ (sr_run (sr_init calls st) sch)) = true
  | Yaml table tree w0 ncalls st sch post =>
      length (envs_of sch) <= 1 /\
      y_order (y_specs table tree w0 sch) st post
              (results _ _ _ _ _ (y_run table tree true (y_init w0 ncalls) sch)) = true
  end.

(* [valid] as a boolean (every part of it is decidable from the case): C19_validb_valid *)
Definition validb (c : case) : bool :=
  match c with
  | Cache capacity calls st sch =>
      all_done _ _ _ _ _ (cr_run (cr_init capacity calls st) sch) &&
      no_none (results _ _ _ _ _ (cr_run (cr_init capacity calls st) sch))
  | Text contents badl ce calls st sch =>
      all_done _ _ _ _ _ (tr_run contents badl ce (tr_init calls st) sch) &&
      no_none (results _ _ _ _ _ (tr_run contents badl ce (tr_init calls st) sch))
  | Store calls st sch =>
      all_done _ _ _ _ _ (sr_run (sr_init calls st) sch) &&
      no_none (results _ _ _ _ _ (sr_run (sr_init calls st) sch))
  | Yaml table tree w0 ncalls st sch post =>
      Nat.leb (length (envs_of sch)) 1 &&
      y_order (y_specs table tree w0 sch) st post
              (results _ _ _ _ _ (y_run table tree true (y_init w0 ncalls) sch))
  end.

(* ---------- sx ---------- *)
Definition asCC (x : sx) : option ccall :=
  match x with
  | L [I 0%Z; k] => obind (asNat k) (fun k => Some (CGet k))
  | L [I 1%Z; k; v] => obind (asNat k) (fun k => obind (asNat v) (fun v => Some (CSet k v)))
  | L [I 2%Z; k] => obind (asNat k) (fun k => Some (CContains k))
  | L [I 3%Z; k] => obind (asNat k) (fun k => Some (CDel k))
  | L [I 4%Z] => Some CLen
  | L [I 5%Z] => Some CClear
  | L [I 6%Z; k] => obind (asNat k) (fun k => Some (CFail k))
  | L [I 7%Z; k; v] => obind (asNat k) (fun k => obind (asNat v) (fun v => Some (CSetNM k v)))
  | _ => None
  end.
Definition asTC (x : sx) : option tcall :=
  match x with
  | L [I 0%Z; a] => obind (asNat a) (fun a => Some (TGet a))
  | L [I 1%Z; a] => obind (asNat a) (fun a => Some (TFind a))
  | L [I 2%Z; w; a] => obind (asNat w) (fun w => obind (asNat a) (fun a => Some (TGetAt w a)))
  | L [I 3%Z; w; a] => obind (asNat w) (fun w => obind (asNat a) (fun a => Some (TFindAt w a)))
  | L [I 4%Z; a] => obind (asNat a) (fun a => Some (TGetF a))
  | L [I 5%Z; a] => obind (asNat a) (fun a => Some (TFindF a))
  | _ => None
  end.
Definition asSC (x : sx) : option scall :=
  match x with
  | L [I 0%Z; s; k; v] => obind (asNat s) (fun s => obind (asNat k) (fun k => obind (asNat v) (fun v => Some (SSet s k v))))
  | L [I 1%Z; s; k] => obind (asNat s) (fun s => obind (asNat k) (fun k => Some (SGetV s k)))
  | L [I 2%Z; s; k] => obind (asNat s) (fun s => obind (asNat k) (fun k => Some (SDel s k)))
  | L [I 3%Z; s] => obind (asNat s) (fun s => Some (SGetData s))
  | L [I 4%Z; k; v] => obind (asNat k) (fun k => obind (asNat v) (fun v => Some (SFind k v)))
  | L [I 5%Z; s] => obind (asNat s) (fun s => Some (SDelData s))
  | L [I 6%Z; s] => obind (asNat s) (fun s => Some (SFail s))
  | _ => None
  end.
Definition asPair (x : sx) : option (nat * nat) :=
  match x with L [a; b] => obind (asNat a) (fun a => obind (asNat b) (fun b => Some (a, b))) | _ => None end.
Definition asChoiceU (x : sx) : option (choice unit) :=
  match x with I z => if (z <? 0)%Z then Some (Ev tt) else Some (T (Z.to_nat z)) | _ => None end.
Definition asChoiceN (x : sx) : option (choice nat) :=
  match x with I z => if (z <? 0)%Z then Some (Ev (Z.to_nat (- z - 1))) else Some (T (Z.to_nat z)) | _ => None end.
Definition asObs (x : sx) : option obs := asListOf (asListOf (asListOf asNat)) x.

Definition asStamps (x : sx) : option stamps := asListOf (asListOf (asListOf asPair)) x.
Definition decode (x : sx) : option (case * obs) :=
  match x with
  | L [I 0%Z; capacity; calls; st; sch; io] =>
      obind (asNat capacity) (fun capacity => obind (asListOf (asListOf asCC) calls) (fun calls =>
      obind (asStamps st) (fun st =>
      obind (asListOf asChoiceU sch) (fun sch => obind (asObs io) (fun io => Some (Cache capacity calls st sch, io))))))
  | L [I 1%Z; contents; badl; ce; calls; st; sch; io] =>
      obind (asListOf (asListOf asPair) contents) (fun contents => obind (asListOf asBool badl) (fun badl =>
      obind (asBool ce) (fun ce => obind (asListOf (asListOf asTC) calls) (fun calls =>
      obind (asStamps st) (fun st =>
      obind (asListOf asChoiceN sch) (fun sch => obind (asObs io) (fun io =>
      Some (Text contents badl ce calls st sch, io))))))))
  | L [I 2%Z; calls; st; sch; io] =>
      obind (asListOf (asListOf asSC) calls) (fun calls => obind (asStamps st) (fun st =>
      obind (asListOf asChoiceU sch) (fun sch =>
      obind (asObs io) (fun io => Some (Store calls st sch, io)))))
  | L [I 3%Z; table; tree; w0; ncalls; st; sch; post; io] =>
      obind (asListOf (asListOf (asListOf asPair)) table) (fun table => obind (asListOf asNat tree) (fun tree =>
      obind (asListOf asNat w0) (fun w0 => obind (asListOf asNat ncalls) (fun ncalls => obind (asStamps st) (fun st =>
      obind (asListOf asChoiceN sch) (fun sch => obind (asBool post) (fun post => obind (asObs io) (fun io =>
      Some (Yaml table tree w0 ncalls st sch post, io)))))))))
  | _ => None
  end.

Definition sx_obs (o : obs) : sx := L (map (fun t => L (map (fun r => L (map sxNat r)) t)) o).

Definition entry (x : sx) : sx :=
  match decode x with
  | None => sxS "bad-case"
  | Some (c, io) =>
      let m := run_model c in
      L [ sx_obs m; L (map sxS (holds c m)); L (map sxS (holds c io)); L []; sxBool (validb c) ]
  end.
