"""C02 - TFTP transfers are lock-step, retransmit boundedly on time-out only, always end."""
import itertools

import common
from common import Check, sx
import tftp_common as T
from c01 import C01


class C02(C01):
    ident = "C02"
    technique = "Coq proof: monitor (lock-step / time-out-only retransmission / budget / give-up / closing) accepts every model trace; extracted-model correspondence with virtual time"
    rule = ("case = script of time-stamped datagrams (correct/duplicate/old/future ACK, ERROR, garbage, foreign sender) with "
            "arrival offsets {0, 1 tick, mid, deadline-1, deadline, deadline+1, 2x} x max_retries {0..3} x timeout {1,2,5 s} x "
            "file lengths {0, 1 block, 3 blocks} x with/without OACK; exhaustive up to 2 (quick) / 3 (thorough) datagrams, "
            "random up to 12; observation = every send/receive/time-out with its virtual time; non-trivial = trace contains a "
            "time-out or a non-matching packet; distinct by full case")

    def gen(self, tier, rng):
        quick = tier == "quick"
        for (ci, (retries, tmo_s, n, opts)) in enumerate(itertools.product((0, 1, 2), (1, 2), (0, 512, 1100),
                                                                         ((), (("timeout", None),)))):
            fa = [(0, 1, 2), (0, 5, 4), (0, 2, 6), (0, 1, 5)][ci % 4]      # two of the foreign address kinds per configuration
            if quick and retries == 0 and n == 1100:
                continue
            tm = tmo_s * T.TICKS
            options = [("timeout", str(tmo_s))] if opts else []
            content = bytes(i % 251 for i in range(n))
            full_pk = [p for (_, p) in T.PACKET_ALPHABET]
            if quick:
                plans = [(2, [0, 1, tm - 1, tm, tm + 1], fa, full_pk[:9], 0.9)]
            else:
                plans = [(2, T.time_steps(tm), fa, full_pk, 0.9),
                         (3, [0, tm - 1, tm, tm + 1], fa[:2], full_pk[:3] + [full_pk[4], full_pk[8]], 0.9)]
            for (L, steps, addrs, pk, skip) in plans:
                for k in range(0, L + 1):
                    for combo in itertools.product(itertools.product(steps, addrs, pk), repeat=k):
                        if k >= 2 and rng.random() < skip:
                            continue
                        t = 0
                        ev = []
                        for (dt, a, p) in combo:
                            t += dt
                            ev.append((t, a, p))
                        yield T.mk_case(content, [], options=options, default_tmo=tmo_s, retries=retries, events=ev)
        for _ in range(1000 if quick else 10000):
            retries = rng.choice([0, 1, 2, 3])
            tmo_s = rng.choice([1, 2, 5])
            tm = tmo_s * T.TICKS
            n = rng.choice([0, 1, 511, 512, 513, 1024, 1500])
            options = [("timeout", str(tmo_s))] if rng.random() < 0.5 else []
            dflt = tmo_s if not options else rng.choice([1, 2, 5])
            max_tmo = 30
            if rng.random() < 0.25:
                # an interval above the server's limit is not accepted (and not announced): the default one applies
                max_tmo = rng.choice([m for m in (1, 2, 5) if m >= tmo_s])
                options = [("timeout", str(rng.choice([max_tmo + 1, 20, 255])))]
                dflt = tmo_s
            t = 0
            ev = []
            for _k in range(rng.randrange(0, 12)):
                t += rng.choice(T.time_steps(tm) + [0, 0, 3])
                ev.append((t, 0 if rng.random() < 0.8 else rng.choice([1, 2, 3, 4, 5, 6]), rng.choice(T.PACKET_ALPHABET)[1]))
            yield T.mk_case(bytes(i % 251 for i in range(n)), [], options=options, default_tmo=dflt, max_tmo=max_tmo,
                            retries=retries, events=ev)
        # handling time: taking a datagram off the socket costs `proc` ticks, so a queue of ignored datagrams
        # (stale ACKs, foreign senders) can still be non-empty when the deadline of the try passes (D20)
        tm = T.TICKS
        stale = [T.ack(7), T.ack(0), b"", T.err(5)]
        for retries in (0, 1):
            for proc in (1, 100, 512, 1023, 1024, 1500):
                for k in sorted(set([0, 1, 2, tm // proc, tm // proc + 1, tm // proc + 3, 2 * (tm // proc) + 2])):
                    if k > 40:
                        continue
                    for (t0, a) in ((0, 0), (0, 1), (tm - 1, 0), (5, 4), (tm - proc, 2)):
                        ev = [(max(0, t0), a, stale[0] if a == 0 else rng.choice(stale)) for _ in range(k)]
                        for tail in ((), ((max(0, t0) + 1, 0, T.ack(1)),), ((2 * tm - 1, 0, T.ack(1)),)):
                            yield T.mk_case(b"abc", [], default_tmo=1, retries=retries, events=ev + list(tail), proc=proc)
        for _ in range(300 if quick else 3000):
            retries = rng.choice([0, 1, 2])
            tmo_s = rng.choice([1, 2])
            tm = tmo_s * T.TICKS
            proc = rng.choice([1, 2, 7, tm // 3, tm - 1, tm, tm + 1])
            options = [("timeout", str(tmo_s))] if rng.random() < 0.5 else []
            t = 0
            ev = []
            for _k in range(rng.randrange(0, 10)):
                t += rng.choice([0, 0, 0, 1, proc, tm // 2, tm - 1, tm])
                ev.append((t, 0 if rng.random() < 0.7 else rng.choice([1, 2, 3, 4, 5, 6]), rng.choice(T.PACKET_ALPHABET)[1]))
            yield T.mk_case(bytes(i % 251 for i in range(rng.choice([0, 512, 700]))), [], options=options,
                            default_tmo=tmo_s if not options else rng.choice([1, 2]), retries=retries, events=ev, proc=proc)
        for _ in range(200 if quick else 2000):
            retries = rng.choice([1, 2, 3])
            nb = rng.randrange(1, 5)
            n = nb * 512 - rng.choice([0, 1, 100])
            wants = T.numbering(n // 512 + 1, 0)
            ev = T.coop_script(rng, wants, 2 * T.TICKS, retries, fault_rate=0.7)
            yield T.mk_case(bytes(i % 251 for i in range(n)), [], retries=retries, events=ev)

    def nontrivial(self, c, obs):
        if any(e[0] == 3 for e in obs) or sum(1 for e in obs if e[0] == 2) >= 2:
            return (len(c["content"]), tuple(c["options"]), c["retries"], c["default_tmo"], tuple(c["events"]), c.get("proc", 0))
        return None


if __name__ == "__main__":
    raise SystemExit(C02().main())
