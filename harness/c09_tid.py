"""
C09, TID isolation: datagrams from foreign addresses do not interfere with a transfer.

Correspondence for theorem C09_tid_noninterference (coq/theories/C09/TidProps.v): the REAL _TftpReadRequest is run
twice through tftp_common.run_impl under the fake socket/clock - once with a script (non-decreasing time stamps)
that contains datagrams from foreign addresses, once with exactly those datagrams deleted - and the two traces
must be equal after removing the receptions from foreign addresses and the packets sent to them: every packet to
the peer, every reception from the peer, every time-out and the closes, with their virtual times.  In the run with
the foreign datagrams each of them must be answered directly by exactly one well-formed ERROR 5 to its sender, not
before its arrival, and nothing else may be sent to a foreign address.

Used by harness/c09.py through `tid_checks(tier, rng, report)`; `python harness/c09_tid.py [--tier T]` runs it alone.
"""
import time

import common
import tftp_common as T

FOREIGN = [a for a in sorted(T.ADDRS) if a != 0]        # all foreign address kinds of tftp_common.ADDRS
TM = 2 * T.TICKS                                         # default time-out of the cases below, in ticks


def strip_foreign(trace):
    return [e for e in trace if not (e[0] in (1, 2) and e[2] != 0)]


def foreign_answered(trace):
    """each reception from a foreign address is directly followed by one ERROR 5 to it, not earlier than the arrival;
    nothing else goes to a foreign address"""
    i = 0
    while i < len(trace):
        e = trace[i]
        if e[0] == 2 and e[2] != 0:
            if i + 1 >= len(trace):
                return False
            s = trace[i + 1]
            if not (s[0] == 1 and s[2] == e[2] and s[3] == [5, 5] and s[1] >= e[1]):
                return False
            i += 2
            continue
        if e[0] == 1 and e[2] != 0:
            return False
        i += 1
    return True


def base_scripts():
    """(options, retries, peer script with non-decreasing stamps); content below is 19 bytes = 3 blocks of 8"""
    bs8 = [("blksize", "8")]
    a = T.ack
    yield bs8, 1, [(1, 0, a(0)), (2, 0, a(1)), (3, 0, a(2)), (4, 0, a(3))]                    # smooth
    yield bs8, 1, [(5, 0, a(0)), (5, 0, a(0)), (900, 0, a(1)), (900, 0, a(1)), (2940, 0, a(2)), (2941, 0, a(3))]   # duplicates, late ACK
    yield bs8, 2, [(1, 0, a(0)), (TM + 10, 0, a(1)), (TM + 10 + 2 * TM + 5, 0, a(2)), (3 * TM + 20, 0, a(3))]      # losses, one give-up-free
    yield bs8, 1, [(1, 0, a(0)), (2, 0, a(1))]                                                # peer disappears: gives up
    yield bs8, 0, []                                                                          # silent peer
    yield bs8, 1, [(1, 0, a(0)), (7, 0, T.err(3, b"disk full"))]                              # peer ERROR
    yield bs8, 1, [(1, 0, a(0)), (2, 0, a(1)), (2047, 0, b"\x00\x04\x00")]                    # invalid packet just before the deadline
    yield [], 1, [(TM - 1, 0, a(1))]                                                          # no OACK, ACK at the last tick
    yield [("timeout", "1"), ("blksize", "8")], 1, [(1, 0, a(0)), (1024, 0, a(1)), (1025, 0, a(1)), (1500, 0, a(2))]
    yield bs8, 1, [(3000, 0, a(0)), (3001, 0, a(1)), (3002, 0, a(2)), (3003, 0, a(3))]        # everything after a time-out


FOREIGN_DATAGRAMS = [T.ack(0), T.ack(1), T.err(0), b"", b"\x00\x01f\x00octet\x00", b"\x00\x04\x00"]


def stamps_between(lo, hi):
    """time stamps s with lo <= s <= hi: the ends, the middle, and the ticks around deadlines"""
    out = {lo, hi, (lo + hi) // 2}
    for k in range(1, 5):
        for d in (-1, 0, 1):
            s = k * T.TICKS + d
            if lo <= s <= hi:
                out.add(s)
    return sorted(out)


def gen_cases(tier, rng):
    quick = tier == "quick"
    content = bytes(range(1, 20))
    for (opts, retries, peer) in base_scripts():
        base = T.mk_case(content, [], options=opts, retries=retries, events=peer)
        m = len(peer)
        for i in range(m + 1):
            lo = peer[i - 1][0] if i > 0 else 0
            hi = peer[i][0] if i < m else lo + 3 * TM
            for s in stamps_between(lo, hi):
                for a in FOREIGN:
                    ds = FOREIGN_DATAGRAMS if (not quick or a == FOREIGN[0]) else rng.sample(FOREIGN_DATAGRAMS, 2)
                    for d in ds:
                        yield base, dict(base, events=peer[:i] + [(s, a, d)] + peer[i:])
        # several foreign datagrams, from all foreign addresses, anywhere
        for _ in range(30 if quick else 400):
            ev = list(peer)
            for _k in range(rng.randrange(2, 7)):
                i = rng.randrange(0, len(ev) + 1)
                lo = ev[i - 1][0] if i > 0 else 0
                hi = ev[i][0] if i < len(ev) else lo + rng.choice([0, 5, TM, 3 * TM])
                ev.insert(i, (rng.choice(stamps_between(lo, hi)), rng.choice(FOREIGN), rng.choice(FOREIGN_DATAGRAMS)))
            yield base, dict(base, events=ev)


def tid_checks(tier, rng, report):
    """append failures (clause C09:tid_noninterference) to report['extra_failing']; add counts to the report"""
    t0 = time.time()
    stats = {"tid_cases_within_theorem_hypotheses": 0, "tid_cases_outside_theorem_hypotheses": 0,
             "tid_evaluations": 0, "tid_failures": 0, "tid_foreign_datagrams_delivered": 0, "tid_foreign_not_delivered": 0}
    base_cache = {}
    out = []
    import fake_net
    for base, c in gen_cases(tier, rng):
        if not fake_net.can_drive(base["default_tmo"], base["max_tmo"], base["retries"], base["max_bs"], base["wrap"]):
            stats["tid_cases_skipped_by_the_driver"] = stats.get("tid_cases_skipped_by_the_driver", 0) + 1
            continue
        key = (tuple(base["options"]), base["retries"], tuple(base["events"]))
        if key not in base_cache:
            base_cache[key] = T.run_impl(base)
            assert [e for e in base["events"] if e[1] != 0] == []
        without = base_cache[key]
        with_f = T.run_impl(c)
        stats["tid_evaluations"] += 1
        # hypotheses of C09_tid_noninterference: non-decreasing time stamps, positive time-out (always), and the
        # fake socket's zero handling time (proc = 0)
        ts = [e[0] for e in c["events"]]
        within = all(a <= b for a, b in zip(ts, ts[1:])) and c.get("proc", 0) == 0
        stats["tid_cases_within_theorem_hypotheses" if within else "tid_cases_outside_theorem_hypotheses"] += 1
        n_foreign = sum(1 for e in c["events"] if e[1] != 0)
        delivered = sum(1 for e in with_f if e[0] == 2 and e[2] != 0)
        stats["tid_foreign_datagrams_delivered"] += delivered
        stats["tid_foreign_not_delivered"] += n_foreign - delivered
        ok = strip_foreign(with_f) == without and foreign_answered(with_f)
        if not ok:
            stats["tid_failures"] += 1
            if len(out) < 2:
                # shrink: drop foreign datagrams one at a time while the failure persists
                cur, cur_tr = c, with_f
                changed = True
                while changed:
                    changed = False
                    for i, e in enumerate(cur["events"]):
                        if e[1] == 0:
                            continue
                        cand = dict(cur, events=cur["events"][:i] + cur["events"][i + 1:])
                        tr = T.run_impl(cand)
                        if not (strip_foreign(tr) == without and foreign_answered(tr)):
                            cur, cur_tr, changed = cand, tr, True
                            break
                case = dict(cur, _extra=True, part="tid: same script without the foreign datagrams must give the same "
                                                   "trace up to the foreign receptions and their ERROR 5")
                out.append((case, ["C09:tid_noninterference"], common._jsonable(cur_tr),
                            common._jsonable(without)))
    stats["tid_wall_s"] = round(time.time() - t0, 1)
    report.setdefault("extra_failing", []).extend(out)
    report["evaluations"] = report.get("evaluations", 0) + stats["tid_evaluations"]
    report["impl_failures"] = report.get("impl_failures", 0) + stats["tid_failures"]
    report.setdefault("extra", {}).update(stats)
    return out


def main(argv=None):
    import argparse
    import json
    import os
    import random
    ap = argparse.ArgumentParser()
    ap.add_argument("--tier", default="quick")
    args = ap.parse_args(argv)
    seed = int(os.environ.get("VERIF_SEED", "0") or 0)
    report = {"evaluations": 0, "extra": {}}
    out = tid_checks(args.tier, random.Random(seed * 1000003 + 919), report)
    print(json.dumps(report["extra"]))
    for (case, fi, o, m) in out:
        print("FAILURE", fi, "options", case["options"], "retries", case["retries"],
              "events", [(t, a, d.hex()) for (t, a, d) in case["events"]])
        print("   with foreign   :", o)
        print("   without foreign:", m)
    print(f"[C09-tid] tier={args.tier} evaluations={report['evaluations']} failures={len(out)}")
    return 1 if out else 0


if __name__ == "__main__":
    raise SystemExit(main())
