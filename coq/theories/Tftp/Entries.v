(* Common shape of the sx entry points of the TFTP transfer properties. *)
From Coq Require Import String.
From Coq Require Import List NArith ZArith Bool.
From VF Require Import Base.Sx Tftp.Readers Tftp.Codec Tftp.Transfer Tftp.Run Tftp.Monitor.
Import ListNotations.

Definition has_tag (tags : list string) (w : string) : bool :=
  existsb (fun t => String.prefix t w) tags.

(* (case impl_trace) -> (proj model ; failed on model ; failed on impl ; proj impl ; covered),
   covered = 1 iff the case satisfies the hypotheses of the property's theorems *)
Definition tftp_entry (covered : tcase -> bool) (holds : tcase -> list tr -> list string) (proj : list tr -> sx) (x : sx) : sx :=
  match x with
  | L [cx; ix] =>
      match de_tcase cx, de_trace ix with
      | Some c, Some it =>
          let m := run_transfer_case c in
          L [proj m; L (map sxS (holds c m)); L (map sxS (holds c it)); proj it; I (if covered c then 1 else 0)%Z]
      | None, _ => sxS "bad-case"
      | _, None => sxS "bad-trace"
      end
  | _ => sxS "bad-input"
  end.

(* projections used for the correspondence of the individual properties *)
Definition len_pkt (p : pkt) : sx :=
  match p with
  | PData n d => L [I 3; sxN n; sxNat (List.length d)]
  | POack _ => L [I 6]
  | PError c => L [I 5; sxN c]
  | PMalformed r => L [I 99; B r]
  end.
Definition proj_client_packets (l : list tr) : sx :=
  L (flat_map (fun e => match e with
                        | TSend _ a p => if (a =? client)%N then
                                           [match p with POack _ => L [I 6] | _ => sx_pkt p end] else []
                        | _ => []
                        end) l).
Definition proj_timing (l : list tr) : sx :=
  L (map (fun e => match e with
                   | TSend t a p => L [I 1; I t; sxN a; len_pkt p]
                   | TRecv t a d => L [I 2; I t; sxN a; B d]
                   | other => sx_tr other
                   end) l).
Definition proj_negotiation (l : list tr) : sx :=
  L (flat_map (fun e => match e with
                        | TSend t a p => if (a =? client)%N then
                             [L [I t; match p with PData n d => L [I 3; sxN n; sxNat (List.length d)] | _ => sx_pkt p end]] else []
                        | TTimeout t => [L [I t]]
                        | _ => []
                        end) l).
