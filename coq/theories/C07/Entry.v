(* C07 - TFTP option negotiation follows RFC 2347-2349; the transfer honours the OACK.
   The checker has two parts:
   (a) the transfer monitor (Tftp/Monitor.v), restricted to the failures that concern C07:
       the first packet is the prescribed OACK (or block 1 when nothing is accepted), block 1
       follows only ACK 0, every non-final DATA block has the negotiated size, time-outs and
       retransmissions happen at the negotiated interval;
   (b) clauses computed from the trace and the declarative specification NegSpec.oack_spec
       alone (they do not go through Codec.negotiate): OACK present iff >= 1 option accepted,
       OACK names a subset of the requested names (case-insensitive), OACK values as a map equal
       to the specified ones, tsize = number of payload bytes carried by the DATA packets of a
       completed transfer. *)
From Coq Require Import String.
From Coq Require Import List NArith ZArith Bool.
From VF Require Import Base.Sx Tftp.Readers Tftp.Codec Tftp.NegSpec Tftp.Transfer Tftp.Run Tftp.Monitor Tftp.Entries.
Import ListNotations.

Definition c07_monitor_tags : list string :=
  ["C01:first_packet"; "C01:data_sequence"; "C02:lockstep"; "C02:timeout_at_deadline"; "C02:retransmission";
   (* retransmissions happen at the negotiated interval: never before the time-out, no delivery after it *)
   "C02:resend_only_on_timeout"; "C02:delivery_after_deadline";
   (* block 1 follows only ACK 0: nothing is sent once the OACK's retries are exhausted *)
   "C02:send_after_end"]%string.

(* packets sent to the requesting client, in order *)
Definition client_pkts (l : list tr) : list pkt :=
  flat_map (fun e => match e with
                     | TSend _ a p => if (a =? client)%N then [p] else []
                     | _ => []
                     end) l.

(* DATA packets with retransmissions collapsed: a DATA packet is a new block iff its
   number differs from the number of the DATA packet sent before it *)
Fixpoint new_blocks (prev : option N) (l : list pkt) : list (list N) :=
  match l with
  | [] => []
  | PData n d :: r =>
      match prev with
      | Some m => if (m =? n)%N then new_blocks prev r else d :: new_blocks (Some n) r
      | None => d :: new_blocks (Some n) r
      end
  | _ :: r => new_blocks prev r
  end.
Definition data_payloads (l : list tr) : list (list N) := new_blocks None (client_pkts l).

Fixpoint total_len (bl : list (list N)) : N :=
  match bl with [] => 0%N | b :: r => (N.of_nat (List.length b) + total_len r)%N end.

(* the transfer got as far as sending the final (short) block *)
Fixpoint completed (bs : N) (bl : list (list N)) : bool :=
  match bl with
  | [] => false
  | [b] => (N.of_nat (List.length b) <? bs)%N
  | _ :: r => completed bs r
  end.

Definition lower_names (o : list (str * str)) : list (str * str) := map (fun p => (lower (fst p), snd p)) o.

Definition sent_oack (l : list tr) : option (list (str * str)) :=
  match client_pkts l with
  | POack o :: _ => Some o
  | _ => None
  end.

(* map equality of an OACK with the specified one *)
Definition oack_matches (o want : list (str * str)) : bool :=
  (List.length o =? List.length want)%nat &&
  forallb (fun p => match dict_get (lower_names o) (fst p) with
                    | Some v => str_eqb v (snd p)
                    | None => false
                    end) want.

Definition spec_of (c : tcase) : oack := oack_spec (t_limits c) (t_netascii c) (t_kind c) (t_options c).

Definition own_clauses (c : tcase) (l : list tr) : list string :=
  let sp := spec_of c in
  let want := spec_negotiated (t_limits c) sp in
  let so := sent_oack l in
  (if Bool.eqb (match so with Some _ => true | None => false end) (1 <=? accepted_count sp)%nat
   then [] else ["C07:oack_iff_accepted"%string]) ++
  match so with
  | None => []
  | Some o =>
      (if forallb (fun p => existsb (fun q => str_eqb (lower (fst q)) (lower (fst p))) (t_options c)) o
       then [] else ["C07:oack_subset_of_request"%string]) ++
      (if oack_matches o (n_oack want) then [] else ["C07:oack_values"%string]) ++
      match dict_get (lower_names o) (lit "tsize") with
      | Some v =>
          let bl := data_payloads l in
          if completed (n_bs want) bl && negb (str_eqb v (dec (total_len bl)))
          then ["C07:tsize_is_bytes_transferred"%string] else []
      | None => []
      end
  end.

Definition holds (c : tcase) (l : list tr) : list string :=
  filter (has_tag c07_monitor_tags) (monitor c l) ++ own_clauses c l.

(* hypotheses of the property: the current code variants, sane server limits, and a stream
   whose announced size (when the server can know it) is the content that will be read *)
Definition kind_consistent (c : tcase) : Prop :=
  match size_known (t_kind c) with
  | Some sz => sz = N.of_nat (List.length (t_content c))
  | None => True
  end.
Definition valid (c : tcase) : Prop :=
  t_nv c = ncurrent /\ (1 <= max_bs (t_limits c))%N /\ kind_consistent c /\ t_wrap c <> Some 65535%N.

Definition run_model := run_transfer_case.
(* [valid] as a boolean (C07.Props.C07_validb_valid) *)
Definition validb (c : tcase) : bool :=
  negb (blksize_drop_over_max (t_nv c)) && negb (tsize_ignores_pos (t_nv c)) &&
  (1 <=? max_bs (t_limits c))%N &&
  match size_known (t_kind c) with Some sz => (sz =? N.of_nat (List.length (t_content c)))%N | None => true end &&
  match t_wrap c with Some w => negb (w =? 65535)%N | None => true end.
Definition entry := tftp_entry (fun c => Monitor.validb c && validb c) holds proj_negotiation.
