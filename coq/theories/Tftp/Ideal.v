(* The idealised server that needs no time to take a datagram off the socket (proc = 0).
   Statements with exact times (TID non-interference, the cooperative-client delivery theorems,
   giving up under silence) are made about it; the statements that hold for every handling
   time (monitor acceptance, the time bound, safety of what is sent) are made about `await`
   itself.  A datagram costs handling time whoever sent it, so with proc > 0 everything after
   it shifts by at most proc per datagram (TimeProofs.await_times). *)
From Coq Require Import List NArith ZArith Bool Lia.
From VF Require Import Tftp.Transfer.
Import ListNotations.
Open Scope Z_scope.

Fixpoint await0 (vr : variants) (want : N) (now deadline : Z) (evs : list event)
  : outcome * Z * list event * list tr :=
  match evs with
  | [] => let t := now + sock_timeout now deadline in (OTimeout, t, [], [TTimeout t])
  | Recv t a d :: r =>
      let lim := now + sock_timeout now deadline in
      if t <? lim then
        let now' := Z.max now t in
        if negb (a =? client)%N then
          let '(o, n2, e2, l2) := await0 vr want now' deadline r in
          (o, n2, e2, TRecv t a d :: TSend now' a (PError 5) :: l2)
        else
          match classify vr d with
          | CAck n =>
              if (n =? want)%N then (OAcked, now', r, [TRecv t a d])
              else let '(o, n2, e2, l2) := await0 vr want now' deadline r in
                   (o, n2, e2, TRecv t a d :: l2)
          | CPeerError => (OPeerError, now', r, [TRecv t a d])
          | CInvalid => (OInvalid, now', r, [TRecv t a d])
          | CInternal => (OInternal, now', r, [TRecv t a d])
          end
      else (OTimeout, lim, evs, [TTimeout lim])
  end.

Lemma await_await0 c want dl : proc c = 0 -> forall evs now, now < dl ->
  await c want now dl evs = await0 (v c) want now dl evs.
Proof.
  intros Hp. induction evs as [|[t a d] r IH]; intros now Hlt; cbn [await await0];
    (destruct (Z.leb_spec dl now); [lia|]); rewrite andb_false_r; [reflexivity|].
  unfold sock_timeout. destruct (Z.ltb_spec 0 (dl - now)); [|lia].
  replace (now + (dl - now)) with dl by lia.
  destruct (Z.ltb_spec t dl); [|reflexivity].
  rewrite Hp, Z.add_0_r. rewrite IH by lia. reflexivity.
Qed.

